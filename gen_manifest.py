#!/usr/bin/env python3
"""Generates MANIFEST.json from the table below (kept next to the harness so that both stay in sync)."""
import json, subprocess
hooks_commits = subprocess.run(["git","-C","/repo","log","--format=%H %s"],capture_output=True,text=True).stdout.splitlines()
hook_shas=[l.split()[0] for l in hooks_commits if " verif hook:" in l]
CHECKS = {
 "C01": ("exploration","history monitor: independent ledger replay vs all pages of get_utxos","4 C01",
         "Held on the executions produced: random fork histories on 3 networks and 3 delivery paths, every address of the case universe (incl. string-prefix twins) queried after every step and compared with a ledger replayed from genesis to the named tip."),
 "C02": ("exploration","history monitor: max-over-all-leaf-paths oracle vs every endpoint's tip","4 C02",
         "Held on the trees produced (every parent vector with <= 4/5 blocks x {1,2,3}^n difficulties x thresholds 1..3 enumerated; trees constructed to tie on accumulated difficulty with side branches; random histories with mock difficulties): get_blockchain_info, unfiltered get_utxos, get_balance and get_block_headers compared with an independent heaviest-path oracle after every arrival and anchor advance."),
 "C03": ("exploration","history monitor: stability rule evaluated on the model tree at every ingestion opportunity, both directions","4 C03",
         "Held on the ingestion opportunities produced (enumerated small trees, constructed ties, random histories, chains of 420-1600 blocks that reach the adaptive depth bound): the anchor advance of the canister is compared with the rule of the statement (never early, never withheld, new anchor on the served chain, live set = descendants of the anchor); readings the statement leaves open are accepted either way and counted."),
 "C04": ("exploration","history monitor: confirmation-cut oracle + ledger at the cut for every (state,address,c)","4 C04",
         "Held on all (state, address, c in 1..len+2) triples of the histories produced, incl. trees where depth and difficulty disagree; closed form H-c+1 asserted on fork-free chains."),
 "C05": ("exploration","differential monitor: get_balance vs sum of all get_utxos pages, query vs update variants","4 C05",
         "Held on all (state, address, c) triples of the histories produced, incl. forked trees with c>=2 and malformed/foreign addresses."),
 "C07": ("exploration","history monitor: best-chain header list vs get_block_headers for all ranges","4 C07",
         "Held on all (start,end) pairs up to tip+2 on every state of the histories produced (stable, unstable, straddling, truncated, error classes)."),
 "C06": ("exploration","trace monitor over page chains (page sizes 1-7, 64-300 over wide transactions, the real 1000) with interleaved events; forged/random page blobs","4 C06",
         "Held on the page chains produced: 0-2 events (best chain grows, competing fork grows, ancestors stabilise, first tip's chain discarded, upgrade) between consecutive page requests; concatenation compared with the ledger at the first response's tip; explicit-error outcomes only when that tip left the tree; no blob traps."),
 "C08": ("fault_enumeration","twin-run differential + frozen-snapshot monitor under controlled per-round instruction budgets","4 C08",
         "Held on the budget schedules produced (random, pause-everywhere, and every subset of pause positions for a designed small block): full user-visible snapshot at every pause point equals the one before the ingestion began, no get_successors request while ingesting, bounded rounds, final snapshot equals the unsliced twin's."),
 "C10": ("exploration","history monitor: admission predicate by construction + model comparison after every response (incl. invalid bodies under previously announced headers and the stored announced-header set)","4 C10",
         "Held on the responses produced: 18 classes of bad elements at every position among valid blocks, valid-only responses with every kind of announced header (garbage, invalid, duplicate, unconnected, chained, stale); error counter +1 exactly, rest of the response dropped, tree and every address answer equal (previous state + valid prefix), no trap."),
 "C12": ("exploration","differential against an own merkle/uniqueness checker over complete mutation families, through the validator and through the canister's insert path (also after the header was announced)","4 C12",
         "Held on valid blocks with every transaction count 1..40 and all their merkle-preserving duplications, swaps, removals, coinbase moves, root replacements, through BlockValidator::validate_block and state::insert_block."),
 "C13": ("fault_enumeration","trace monitor over the request/reply log under a cooperative scheduler at the single await point","4 C13",
         "Held on the schedules produced (random, and all op sequences up to a length bound over a 6-letter alphabet): single outstanding request, consecutive follow-ups, initial request after reject/upgrade naming anchor + all unstable hashes, bit-identical reassembly, no double application, zero error counters with an honest adapter, bounded progress after faults stop."),
 "C15": ("exploration","history monitor: own nearest-rank over admissible populations, with stickiness per tip","4 C15",
         "Held on the fee-paying histories produced (forks with different transactions, reorgs, empty blocks, eager/lazy, upgrades): every answer is 101 non-decreasing values equal to the nearest-rank percentiles of an admissible population, unchanged while the tip stays."),
 "C16": ("exploration","per-call conservation monitor on the mock cycles ledger + finite client/default table comparison","4 C16",
         "Held on the calls produced: random and default fee tables x instruction counts x error outcomes x attached cycles around the maximum; client constants compared with the default tables exhaustively (3 networks x 5 endpoints, stepped lengths)."),
 "C19": ("exploration","differential against an own strict BIP144 parser (three-valued) + forward log, on synced and on lagging canisters","4 C19",
         "Held on the payloads produced: generated transactions, every truncation, extensions, prefixes, all single-bit flips of small transactions, random bytes, zero-input encodings, under the flag x network matrix."),
 "C20": ("exploration","structural invariant at a hook, recomputed from the model's live tree at every quiescent point","4 C20",
         "Held on the histories produced (forks discarded at various depths, transactions shared between forks and spent in the same block, upgrades): tree = block cache = delta maps = live set, exact reference counts and tx outs, announced headers pruned, tip depths and per-block metrics exact."),
 "C09": ("fault_enumeration","twin-run differential + before/after snapshot monitor (query answers, stored announced headers, gated probes, configuration incl. the upgrade argument) with an upgrade injected at every message boundary","4 C09",
         "Held on the scripts produced: upgrade before every message of fetch/ingest scripts (phases: idle, fetching, response stored, partial pages received, ingestion paused), with and without a config argument; every query answer equal before/after, next request initial, drained final state equal to the twin's; plus upgrades at random points of forked histories. One known finding (utxos_length) is matched by an exact defect model."),
 "C11": ("exploration","differential against an own implementation of the consensus header rules (numeric targets, decisions with a scripted header store, real-chain replay, mined regtest end-to-end, and the canister's own header store driven across a multiple of 2016 with pending announced headers)","4 C11",
         "Held on the chains and candidates produced on three networks; both directions of every rule."),
 "C14": ("exploration","history monitor: must/may sets of announced headers x full endpoint/flag/network matrix at every state","4 C14",
         "Held on every matrix cell of the states produced; between the certain and the possible header sets either outcome is accepted. The metrics endpoint cannot be called natively (ic0) and is not covered."),
 "C17": ("exploration","decision monitor through the real fetch -> storage -> health -> target path with ic_http mocks and real transforms","4 C17",
         "Held on the rounds produced for all five targets incl. stale-round scripts and provider permutations."),
 "C18": ("exploration","invariant + metamorphic monitor on every endpoint transform","4 C18",
         "Held on the responses produced: totality, no headers, status kept, canonical body, invariance under header/whitespace/member-order/extra-member variation."),
}
TRUST="native build of the canister crates with feature verif_hooks; reference model in harness/src/model.rs + parse.rs written from the statements; IC rollback-on-trap not emulated"
props=[json.loads(l)["id"] for l in open("/verif/properties.jsonl")]
m={
 "version":1,
 "setup_cmd":"cd /verif/harness && CARGO_NET_OFFLINE=true cargo build --release --offline",
 "hooks":{
   "guard":"verif_hooks",
   "enable":"cargo feature `verif_hooks` of ic-btc-canister, ic-btc-validation and watchdog; enabled only by /verif/harness/Cargo.toml (path dependencies on /repo), together with the existing features mock_time (canister) and mock_difficulty (ic-btc-types)",
   "baseline_off_cmd":"cd /repo && cargo nextest run --workspace --no-fail-fast --tool-config-file pb:/w/lib/nextest.toml --profile pb --test-threads 8 --offline",
   "source_commits":hook_shas,
   "add_only":True},
 "engines":[{"name":"btcmon","path":"/verif/harness","serves_properties":sorted(CHECKS),"kind_free_text":"runtime monitors (reference-model oracles, differential and invariant monitors) over generated hostile workloads driving the real canister code natively"}],
 "checks":[],
 "not_applicable":[],
 "notes":"Runtime monitoring only. Each check rebuilds /verif/harness (path deps on /repo's working tree), runs 16 worker processes, writes evidence/<id>.json. Exit 0 = held on everything observed; 1 + VIOLATION line = violation; 2 = run observed too little (inconclusive, no verdict); 3 = build failed.",
}
for p in props:
    if p in CHECKS:
        level,tech,ref,text=CHECKS[p]
        m["checks"].append({
          "property_id":p,
          "quick_cmd":f"bin/check {p} --tier quick",
          "thorough_cmd":f"bin/check {p} --tier thorough",
          "evidence_file":f"/verif/evidence/{p}.json",
          "replay_cmd_template":f"bin/check {p} --replay {{path}}",
          "engine":"btcmon",
          "level_claimed":{"category":level,"text":text,"design_ref":f"DESIGN.md section {ref}"},
          "level_note":TRUST,
          "technique":tech})
    else:
        m["not_applicable"].append({"property_id":p,"reason":"check not built yet in this round (runtime monitoring applies; see DESIGN.md section 4)"})
json.dump(m,open("/verif/MANIFEST.json","w"),indent=1)
print(len(m["checks"]),"checks")
