//! Lane registry: which workloads and monitors decide which property.

use crate::cov::{Ctx, Tier};
use crate::hist::{Hist, HistCfg, Palette, Path};
use crate::mon;
use crate::rng::{fp_str, Rng};
use ic_btc_interface::Network;

pub struct Meta {
    pub level: &'static str,
    pub rule: &'static str,
    pub assumptions: Vec<&'static str>,
    pub quick_budget_s: f64,
    pub thorough_budget_s: f64,
}

const COMMON_ASSUMPTIONS: [&str; 3] = [
    "native 64-bit build of the canister crates (release profile, overflow checks off like the shipped wasm); wasm32-only behaviour is not observed",
    "IC rollback-on-trap is not emulated; a trap is treated as an effect-free refusal",
    "reference model (harness/src/model.rs, parse.rs) written from the property statements is the oracle",
];

pub fn meta(prop: &str) -> Option<Meta> {
    let m = |level, rule, q, t| {
        Some(Meta {
            level,
            rule,
            assumptions: COMMON_ASSUMPTIONS.to_vec(),
            quick_budget_s: q,
            thorough_budget_s: t,
        })
    };
    match prop {
        "C01" => m("exploration", "random fork histories (3 networks, 3 delivery paths) queried after every step for every address of the case's universe, all pages followed with page sizes 1..7 and 1000; a query is non-trivial if the ledger or the answer is non-empty; distinct = fingerprint of (tree shape with difficulties, threshold, network, address kind, answer size, tip)", 35.0, 600.0),
        "C02" => m("exploration", "every parent vector (tree + arrival order) with <= 4 (quick) / 5 (thorough) non-root blocks x {1,2,3}^n difficulties x thresholds 1..3 on three networks (enumerated; exhaustive=true when the family was completed in the budget), trees constructed so that sibling subtrees tie on accumulated difficulty with light side branches of any length, plus random histories; a state is non-trivial if the tree has more than one leaf; distinct = fingerprint of (pre-order shape with difficulties, threshold, network)", 35.0, 600.0),
        "C03" => m("exploration", "every ingestion opportunity of enumerated small trees, constructed tie trees, deep chains (420-1600 blocks, heavy anchor so that only the depth escape can fire, competitor branches) and random histories is judged by the stability rule in both directions; distinct = fingerprint of (tree shape with difficulties, threshold, network, advanced or not)", 35.0, 600.0),
        "C04" => m("exploration", "every (state, address, c) with c in 1..=best-chain length+2; distinct = fingerprint of (tree shape, threshold, network, c, address kind, answer size)", 35.0, 600.0),
        "C05" => m("exploration", "get_balance vs sum over all pages of get_utxos for every (state, address, c in {none, 0..len+2, u32::MAX}) incl. malformed and foreign-network addresses; non-trivial if either side is non-zero or both are errors; distinct = fingerprint of (tree shape, threshold, network, c, address kind, sum)", 35.0, 600.0),
        "C15" => m("exploration", "fee-paying histories (legacy and witness sizes, forks with different transactions, reorgs, empty blocks, eager/lazy, upgrades), queried after every step; an answer is non-trivial if non-empty; distinct = distinct 101-value answers checked against own nearest-rank over the admissible populations", 35.0, 600.0),
        "C20" => m("exploration", "bookkeeping snapshot (hook) recomputed from the model's live tree after every step of fork/discard/shared-transaction histories with upgrades, incl. both indexes of the announced headers (no leaked, missing, empty or misfiled entry); distinct = fingerprint of (tree shape, threshold, network, forks, cached tx outs)", 35.0, 600.0),
        "C06" => m("exploration", "page chains (page sizes 1..7 through the hook; 1000 in the thorough tier) started on forked histories with 0-2 events between consecutive page requests drawn from {best chain grows, competing fork grows, ancestors stabilise, the chain of the first tip is discarded, upgrade}, plus forged and random page blobs; distinct = fingerprint of (event sequence, pages, elements, tree shape)", 35.0, 600.0),
        "C08" => m("fault_enumeration", "scripted histories replayed under per-round instruction budgets (random, pause-everywhere, and for a designed small block every subset of pause positions) against an unsliced twin; full user-visible snapshot compared at every pause point with the one taken before the ingestion began; distinct = distinct (history, pause set) pairs", 45.0, 900.0),
        "C09" => m("fault_enumeration", "(1) scripted fetch/ingest histories (heartbeats, complete/partial/rejected replies, queries, sliced ingestion budgets) on fork-free universes served by an honest adapter model, re-run with an upgrade injected before every message (and after the last): every query answer compared before/after the upgrade, the request after it must be an initial one, and the drained final state must equal the twin's without upgrade; with and without a config argument; (2) upgrades at random points of forked histories on all networks with the full snapshot compared before/after; distinct = (phase at the upgrade, argument, position)", 45.0, 900.0),
        "C10" => m("exploration", "block-source responses of 1-6 elements delivered through the real heartbeat path with one bad element (18 classes: random/empty/truncated bytes, trailing bytes, duplicates of unstable/anchor/stable blocks, orphan, child of a stable-only ancestor, future/old timestamp, wrong or excessive bits, bad PoW, bad merkle root, no coinbase, no transactions, duplicated transactions) at every position, valid blocks before and after it, and garbage announced headers; body-invalid elements also under a sound header that was announced by an earlier response; the stored announced-header set is compared before/after every refused response; distinct = (class, position, suffix length, tree size)", 35.0, 600.0),
        "C14" => m("exploration", "heartbeat-path histories with announced headers on the best chain, on forks, chained up to 10 deep, re-announced, followed by garbage, delivered later, going stale, passed by the stable height; at every state the full matrix 7 endpoints x api_access x 3 requested networks x disable_api_if_not_fully_synced, judged by must/may sets of announced headers; distinct = (endpoint, flags, network match, outcome, certain and possible header lead over the best height)", 35.0, 600.0),
        "C16" => m("exploration", "per-call conservation monitor on the mock cycles ledger (hook): random and default fee tables (zeros, maximum equal to base, maximum below the computed fee) x instruction counts set through the mock counter x error outcomes x attached cycles {maximum, maximum-1, more, 0}; plus the finite comparison of the client's cost_* constants with the default tables (3 networks x 5 endpoints, send_transaction lengths 0..10^6 stepped); distinct = (endpoint, charge, enough cycles, trapped, request error, instructions)", 25.0, 300.0),
        "C17" => m("exploration", "the real fetch -> storage -> health -> target path of the watchdog (hook round()) against ic_http mocks whose bodies go through the real transforms: for each of the 5 targets, random multisets of explorer results (heights in a window around the thresholds, far outliers, non-200, transport errors, garbage, null), canister heights incl. unknown, 1-3 rounds (stale heights from earlier rounds), permutations over providers; decision compared with the rule of the statement; distinct = (target, height offsets, canister offset, decision)", 25.0, 300.0),
        "C18" => m("exploration", "every endpoint transform (hook enumerator) on per-explorer shaped and plain payloads with typed height leaves, statuses 0..599 and 2^128-1, random headers; relations: output invariant under header changes, JSON whitespace, member order at every level and freshly named extra members; typed mutation of every leaf; raw byte bodies (signs, spaces, overflow, invalid UTF-8, truncated JSON, empty); distinct = (endpoint, shape, output body)", 25.0, 300.0),
        "C19" => m("exploration", "serialisations of generated legacy/segwit transactions and, for each, every truncation, 1-8 byte extensions, prefixes, two transactions back to back, every single-bit flip (small transactions), random bytes, zero-input encodings; access flag x requested network matrix, on freshly initialised canisters and on canisters several announced headers behind (sync gate on and off); verdict compared with an own strict BIP144 parser (three-valued) and the forward log (hook); distinct = (family, verdict, allowed, length)", 25.0, 300.0),
        "C11" => m("exploration", "(1) required-target computation (hook) on synthetic (time,bits) chains around multiples of 2016 with clamps, negative timespans and minimum-difficulty runs on three networks, compared numerically with an own GetNextWorkRequired over 256-bit integers; (2) accept/reject decisions of validate_header on PoW-valid headers (2633 real mainnet headers, harness-mined easy headers) against scripted histories that make each rule pass or fail; (3) replay of the real mainnet chain across the retarget at 588672 with field perturbations; (4) mined regtest headers end-to-end through the canister; (5) the canister's own header store across a multiple of 2016: a regtest canister on a genesis with non-limit bits grown to just below 2016 through insert_block, then blocks and announced headers (also on top of announced headers that are still pending) offered with every (gap, bits) candidate and judged by the reference rule on the true chain; distinct = (network, deciding rule, retarget boundary, bits)", 35.0, 600.0),
        "C12" => m("exploration", "valid regtest blocks with every transaction count 1..40 (legacy and witness-carrying) and, for each, the complete families of merkle-preserving duplications (every level with an odd group count, and compositions), adjacent swaps, single removals, coinbase moved/duplicated/absent, replaced header root; verdict of BlockValidator::validate_block and of state::insert_block (in half of the cases after the block's header was announced through a heartbeat) compared with an own merkle/uniqueness checker over the serialised bytes; distinct = (family, tx count, resulting tx count, witness)", 30.0, 600.0),
        "C13" => m("fault_enumeration", "the harness is the scheduler at the single await point (hook): random schedules of heartbeats / replies (complete 0-3 blocks, partial with 0,1,2,3,17,255 follow-ups at arbitrary split points, rejects) / queries / upgrades over a universe of valid regtest blocks served by an honest adapter model, then a reject-free drain with a step bound; plus all op sequences up to a length bound over a 6-letter alphabet; distinct = distinct op sequences", 45.0, 900.0),
        "C07" => m("exploration", "all (start,end) pairs up to tip+2 on every state of histories (sampled when tip > 40), also at pause points of sliced ingestions and after upgrades; distinct = (class, start, last, tip, stable height, paused)", 35.0, 600.0),
        _ => None,
    }
}

fn tier_scale(ctx: &Ctx, quick: u64, thorough: u64) -> u64 {
    if ctx.tier == Tier::Quick {
        quick
    } else {
        thorough
    }
}

pub fn run(ctx: &mut Ctx) {
    let prop = ctx.prop.clone();
    if std::env::var("BTCMON_BENCH_RESET").is_ok() {
        let t = std::time::Instant::now();
        for _ in 0..50 {
            crate::world::reset(&crate::world::WorldCfg::new(Network::Regtest, 2));
        }
        ctx.cov.add("bench_50_resets_ms", t.elapsed().as_millis() as u64);
        return;
    }
    match prop.as_str() {
        "C02" | "C03" | "C04" => {
            let b = ctx.budget_s;
            ctx.budget_s = b * 0.2;
            lane_ties(ctx);
            ctx.budget_s = b * 0.45;
            lane_trees(ctx);
            if ctx.prop == "C03" {
                ctx.budget_s = b * 0.7;
                lane_deep(ctx);
            }
            ctx.budget_s = b;
            lane_history(ctx);
        }
        "C01" => {
            let b = ctx.budget_s;
            ctx.budget_s = b * 0.2;
            crate::c06::lane_bigpages(ctx);
            ctx.budget_s = b;
            lane_history(ctx);
        }
        "C15" => {
            let b = ctx.budget_s;
            ctx.budget_s = b * 0.3;
            crate::fees::lane_bigfees(ctx);
            ctx.budget_s = b;
            lane_history(ctx);
        }
        "C05" | "C07" => {
            // the statements include "while a block is being ingested in slices"
            let b = ctx.budget_s;
            ctx.budget_s = b * 0.3;
            crate::c08::lane_slice(ctx);
            ctx.budget_s = b;
            lane_history(ctx);
        }
        "C20" => {
            let b = ctx.budget_s;
            ctx.budget_s = b * 0.7;
            lane_history(ctx);
            ctx.budget_s = b;
            crate::c14::lane_gate(ctx);
        }
        "C06" => {
            let b = ctx.budget_s;
            ctx.budget_s = b * 0.25;
            crate::c06::lane_bigpages(ctx);
            ctx.budget_s = b;
            crate::c06::lane_pages(ctx);
        }
        "C10" => crate::c10::lane_admit(ctx),
        "C14" => crate::c14::lane_gate(ctx),
        "C16" => {
            crate::c16::lane_client_table(ctx);
            crate::c16::lane_cycles(ctx);
        }
        "C17" => crate::wd::lane_decision(ctx),
        "C18" => crate::wd::lane_transforms(ctx),
        "C19" => crate::c19::lane_send(ctx),
        "C11" => {
            let b = ctx.budget_s;
            ctx.budget_s = b * 0.3;
            crate::c11::lane_numeric(ctx);
            ctx.budget_s = b * 0.6;
            crate::c11::lane_decisions(ctx);
            ctx.budget_s = b * 0.8;
            crate::c11::lane_real_chain(ctx);
            ctx.budget_s = b * 0.9;
            crate::c10::lane_admit_headers(ctx);
            ctx.budget_s = b;
            crate::c11::lane_boundary(ctx);
        }
        "C12" => {
            let b = ctx.budget_s;
            ctx.budget_s = b * 0.7;
            crate::c12::lane_structure(ctx);
            ctx.budget_s = b;
            crate::c12::lane_structure_canister(ctx);
        }
        "C09" => {
            let b = ctx.budget_s;
            ctx.budget_s = b * 0.6;
            crate::sched::lane_upgrade_points(ctx);
            ctx.budget_s = b;
            lane_history_upgrades(ctx);
        }
        "C13" => {
            let b = ctx.budget_s;
            ctx.budget_s = b * 0.6;
            crate::sched::lane_random(ctx);
            ctx.budget_s = b;
            crate::sched::lane_exhaustive(ctx);
        }
        "C08" => {
            let b = ctx.budget_s;
            ctx.budget_s = b * 0.6;
            crate::c08::lane_slice(ctx);
            ctx.budget_s = b * 0.8;
            crate::c08::lane_slice_order(ctx);
            ctx.budget_s = b;
            crate::c08::lane_slice_exhaustive(ctx);
        }
        _ => {}
    }
}

/// Strata of the shared history workload, chosen by case index.
fn stratum_cfg(k: u64, rng: &mut Rng, thorough: bool) -> (HistCfg, &'static str) {
    let mut cfg = HistCfg::random(rng, thorough);
    let name = match k % 8 {
        0 => {
            // prefix twins: small threshold so that outputs become stable quickly
            cfg.threshold = rng.range(1, 3) as u32;
            cfg.fork_pct = 10;
            cfg.n_each = 1;
            "prefix_twins_stable"
        }
        1 => {
            if cfg.path == Path::Heartbeat {
                cfg.path = Path::Insert;
            }
            cfg.palette = Palette::Heavy(12);
            cfg.fork_pct = 60;
            cfg.threshold = rng.range(3, 40) as u32;
            "heavy_short_branch"
        }
        2 => {
            cfg.share_pct = 70;
            cfg.fork_pct = 50;
            cfg.threshold = rng.range(4, 30) as u32;
            "shared_tx_across_forks"
        }
        3 => {
            cfg.fanout_pct = 40;
            "many_outputs"
        }
        4 => {
            cfg.net = Network::Regtest;
            cfg.path = Path::Heartbeat;
            cfg.palette = Palette::One;
            "heartbeat_path"
        }
        5 => {
            // long chains: more than 100 headers on either side of the stable boundary
            if cfg.path == Path::Heartbeat {
                cfg.path = Path::Insert;
            }
            cfg.max_txs = 0;
            cfg.fork_pct = 5;
            cfg.threshold = *rng.pick(&[2u32, 3, 120, 200]);
            cfg.palette = Palette::One;
            "long_chain"
        }
        _ => "random",
    };
    (cfg, name)
}

fn lane_history(ctx: &mut Ctx) {
    let max_cases = tier_scale(ctx, 100_000, 10_000_000);
    let thorough = ctx.tier == Tier::Thorough;
    for k in ctx.cases("hist", max_cases) {
        if !ctx.time_left() {
            break;
        }
        ctx.begin("hist", k);
        let mut rng = Rng::derive(&[ctx.seed, fp_str("hist"), k]);
        let (cfg, stratum) = stratum_cfg(k, &mut rng, thorough);
        ctx.cov.count(&format!("stratum_{}", stratum));
        ctx.cov.count(&format!("net_{}", crate::gen::net_name(cfg.net)));
        ctx.cov.count(&format!("path_{:?}", cfg.path));
        let steps = if stratum == "long_chain" && (ctx.prop == "C07" || ctx.prop == "C02" || thorough) {
            rng.range(110, 260)
        } else {
            rng.range(8, if thorough { 60 } else { 30 })
        };
        let limit = match rng.below(6) {
            0 => None,
            x => Some([1usize, 2, 3, 7, 5][(x - 1) as usize]),
        };
        let mut h = Hist::new(cfg, rng);
        h.report_c03 = ctx.prop == "C03";
        if ctx.prop == "C15" {
            h.fee = Some(crate::fees::FeeTracker::default());
            h.fee_boundary();
        }
        let upgrade_pct = if ctx.prop == "C15" || ctx.prop == "C20" || ctx.prop == "C07" { 8 } else { 2 };
        for _ in 0..steps {
            if !h.step(ctx) {
                break;
            }
            match ctx.prop.as_str() {
                "C01" => mon::check_c01(&mut h, ctx, limit),
                "C02" => mon::check_c02(&mut h, ctx),
                "C03" => {}
                "C04" => mon::check_c04(&mut h, ctx, limit, 4),
                "C05" => {
                    // hostile address strings: other case, other network, spaces, garbage
                    let mut extra: Vec<String> = vec![];
                    if h.rng.chance(1, 4) {
                        let a = h.uni.addrs[2].text.clone(); // p2wpkh (bech32)
                        extra.push(a.to_uppercase());
                        let mut mixed = a.clone();
                        if let Some(c) = mixed.pop() {
                            mixed.push(c.to_ascii_uppercase());
                        }
                        extra.push(mixed);
                        extra.push(format!(" {}", a));
                        extra.push(String::new());
                        extra.push("bc1qw508d6qejxtdg4y5r3zarvary0c5xw7kv8f3t4".into());
                        extra.push("tb1qw508d6qejxtdg4y5r3zarvary0c5xw7kxpjzsx".into());
                        extra.push("1BvBMSEYstWetqTFn5Au4m4GFg7xJaNVN2".into());
                        extra.push("not an address".into());
                        ctx.cov.count("c05_states_with_hostile_address_strings");
                    }
                    mon::check_c05(&mut h, ctx, limit, &extra, 3)
                }
                "C07" => mon::check_c07(&mut h, ctx, false, 40),
                "C15" => {
                    if let Some(mut f) = h.fee.take() {
                        f.check(&h, ctx);
                        // a second request for the same tip must hit the cache
                        if h.rng.chance(1, 3) {
                            f.check(&h, ctx);
                        }
                        h.fee = Some(f);
                    }
                }
                "C20" => mon::check_c20(&mut h, ctx),
                _ => {}
            }
            if h.rng.chance(upgrade_pct, 100) {
                if !h.upgrade(ctx) {
                    break;
                }
                if ctx.prop == "C20" {
                    mon::check_c20(&mut h, ctx);
                }
                if ctx.prop == "C07" {
                    ctx.cov.count("c07_checks_right_after_an_upgrade");
                    mon::check_c07(&mut h, ctx, false, 40);
                }
            }
            if !ctx.time_left() {
                break;
            }
        }
        ctx.cov.add("reorgs", h.reorgs);
        ctx.cov.add("upgrades", h.upgrades);
        if let Some(f) = &h.fee {
            ctx.cov.add("c15_tip_changes", f.tip_changes);
            ctx.cov.add("c15_populations_evaluated", f.populations_seen);
            ctx.cov.max("max_fee_population", f.max_population as u64);
            ctx.cov.add("c15_ambiguous_cut_inside_block", f.ambiguous_cut);
        }
        ctx.cov.max("max_unstable_blocks", h.model.live_count() as u64);
        if let Some(d) = &h.desync {
            if !d.starts_with("C03") || ctx.prop == "C03" {
                // a desync that was not reported as a violation of this property: the case could not
                // be carried on; it says nothing about the property
                if ctx.cov.violations.iter().all(|v| v.case != k) {
                    ctx.inconclusive(format!("history abandoned: {}", d));
                }
            } else {
                ctx.inconclusive(format!("history abandoned: {}", d));
            }
        }
    }
}

/// C09, second workload: upgrades at random points of forked histories (all paths and networks):
/// every query answer before == after.
fn lane_history_upgrades(ctx: &mut Ctx) {
    use crate::snap::{self, SnapOpts};
    let max_cases = tier_scale(ctx, 100_000, 10_000_000);
    let thorough = ctx.tier == Tier::Thorough;
    for k in ctx.cases("histup", max_cases) {
        if !ctx.time_left() {
            break;
        }
        ctx.begin("histup", k);
        let mut rng = Rng::derive(&[ctx.seed, fp_str("histup"), k]);
        let (cfg, stratum) = stratum_cfg(k, &mut rng, thorough);
        ctx.cov.count(&format!("stratum_{}", stratum));
        let steps = rng.range(6, 24);
        let mut h = Hist::new(cfg, rng);
        for _ in 0..steps {
            if !h.step(ctx) || !ctx.time_left() {
                break;
            }
            if h.rng.chance(1, 3) {
                // on regtest (headers can be mined) half of the upgrades happen while announced
                // headers are pending: they decide the sync gate and must survive
                if h.net() == Network::Regtest && h.rng.chance(1, 2) {
                    let n = h.rng.range(1, 6) as usize;
                    let next = h.hidden_header_chain(n);
                    let blobs: Vec<ic_btc_canister::types::BlockHeaderBlob> = next.iter().map(|x| crate::world::header_blob(x.clone())).collect();
                    let r = crate::world::guarded(|| ic_btc_canister::with_state_mut(|s| ic_btc_canister::state::insert_next_block_headers(s, &blobs)));
                    if r.is_trap() {
                        ctx.violation("insert_next_block_headers trapped".into(), None, serde_json::json!({"log": h.log}));
                        break;
                    }
                    h.note_announced(&next);
                    if !crate::world::bookkeeping().next_by_hash.is_empty() {
                        ctx.cov.count("c09_upgrades_with_pending_announced_headers");
                    }
                }
                let o = SnapOpts { with_fees: true, with_utxos_length: false, max_c: 64 };
                let mut before = snap::snapshot(&h, &o);
                before.extend(snap::gate_probe(&h));
                let ul_before = crate::world::info().ok().map(|i| i.utxos_length).unwrap_or(0);
                let deltas: i64 = {
                    let bk = crate::world::bookkeeping();
                    let best = h.model.best_chains()[0].clone();
                    bk.tree
                        .iter()
                        .filter(|n| {
                            let mut a = [0u8; 32];
                            a.copy_from_slice(n.0.as_bytes());
                            best.contains(&a)
                        })
                        .map(|n| n.4)
                        .sum()
                };
                if !h.upgrade(ctx) {
                    break;
                }
                let mut after = snap::snapshot(&h, &o);
                after.extend(snap::gate_probe(&h));
                ctx.cov.count("c09_before_after_snapshots_compared");
                ctx.cov.count("c09_upgrade_in_phase_forked_history");
                ctx.cov.eval(Some(mon::state_fp(&h, "c09")));
                if let Some(d) = snap::diff(&before, &after) {
                    ctx.violation(
                        format!("a query answer changed across pre_upgrade/post_upgrade: {}", d),
                        None,
                        serde_json::json!({"log": h.log}),
                    );
                    break;
                }
                let ul_after = crate::world::info().ok().map(|i| i.utxos_length).unwrap_or(0);
                if ul_after != ul_before {
                    let stable_len = ic_btc_canister::with_state(|s| s.utxos.utxos_len_without_ingesting_block());
                    let _ = deltas;
                    let sig = if ul_after == stable_len {
                        Some("C09:utxos_length-loses-unstable-deltas-across-upgrade".to_string())
                    } else {
                        None
                    };
                    ctx.violation(
                        format!("get_blockchain_info.utxos_length changed across an upgrade: {} -> {}", ul_before, ul_after),
                        sig,
                        serde_json::json!({"log": h.log}),
                    );
                }
            }
        }
    }
}

/// Exhaustive family for C02/C03/C04: every rooted tree with up to N non-root blocks in every
/// arrival order (parent vectors p[i] in 0..i), every difficulty assignment over {1,2,3}, thresholds 1..3.
fn lane_trees(ctx: &mut Ctx) {
    let nmax: u32 = if ctx.tier == Tier::Quick { 4 } else { 5 };
    // sizes of the sub-families
    let mut fam: Vec<(u32, u64)> = vec![];
    let mut total: u64 = 0;
    for n in 1..=nmax {
        let fact: u64 = (1..=n as u64).product();
        let size = fact * 3u64.pow(n) * 3;
        fam.push((n, size));
        total += size;
    }
    let mut complete = true;
    for k in ctx.cases("trees", total) {
        if !ctx.time_left() {
            complete = false;
            break;
        }
        ctx.begin("trees", k);
        // decode k
        let mut rest = k;
        let mut n = 1;
        for (nn, size) in fam.iter() {
            if rest < *size {
                n = *nn;
                break;
            }
            rest -= *size;
        }
        let thr = (rest % 3) as u32 + 1;
        rest /= 3;
        let mut diffs = vec![];
        for _ in 0..n {
            diffs.push((rest % 3) as u128 + 1);
            rest /= 3;
        }
        // parent vector: p[i] in 0..=i (0 = root, j = block j)
        let mut parents = vec![];
        for i in 0..n as u64 {
            parents.push((rest % (i + 1)) as usize);
            rest /= i + 1;
        }
        let net = [Network::Regtest, Network::Mainnet, Network::Testnet][(k % 3) as usize];
        let cfg = HistCfg {
            net,
            path: if net == Network::Regtest { Path::Insert } else { Path::Push },
            threshold: thr,
            n_each: 1,
            max_txs: 1,
            fork_pct: 0,
            palette: Palette::One,
            fanout_pct: 0,
            share_pct: 0,
            lazy_fees: true,
            sync_gate: false,
            ingest_pct: 100,
            fee_txs: true,
        };
        let mut h = Hist::new(cfg, Rng::derive(&[ctx.seed, fp_str("trees"), k]));
        h.report_c03 = ctx.prop == "C03";
        let mut hashes: Vec<crate::parse::H> = vec![h.model.anchor];
        for i in 0..n as usize {
            let parent = hashes[parents[i]];
            // the parent may have been stabilised or discarded already
            if !h.model.is_live(&parent) {
                break;
            }
            let b = h.gen_block(&parent);
            match h.deliver(b, diffs[i], ctx) {
                Some(hh) => hashes.push(hh),
                None => break,
            }
            if !h.opportunity(ctx) {
                break;
            }
            match ctx.prop.as_str() {
                "C02" => mon::check_c02(&mut h, ctx),
                "C04" => mon::check_c04(&mut h, ctx, Some(3), 2),
                _ => {}
            }
        }
        ctx.cov.count("exhaustive_tree_cases");
        if let Some(d) = &h.desync {
            if ctx.cov.violations.iter().all(|v| v.case != k || v.lane != "trees") {
                ctx.inconclusive(format!("tree case abandoned: {}", d));
            }
        }
    }
    if ctx.only_case.is_none() {
        ctx.cov.exhaustive = Some(complete);
        ctx.cov.add("exhaustive_tree_family_size", if ctx.shard == 0 { total } else { 0 });
    }
}

/// C03 on testnet/regtest: chains long enough to reach the adaptive depth bound, with an anchor so
/// heavy that the difficulty rule cannot fire, and a competing branch at various distances.
fn lane_deep(ctx: &mut Ctx) {
    // a single deep case takes 1-2 s: the quick tier runs a few per worker
    let max_cases = if ctx.tier == Tier::Quick { 64 } else { 100_000 };
    for k in ctx.cases("deep", max_cases) {
        if !ctx.time_left() {
            break;
        }
        ctx.begin("deep", k);
        let mut rng = Rng::derive(&[ctx.seed, fp_str("deep"), k]);
        let quick = ctx.tier == Tier::Quick;
        let (net, path) = if k % 2 == 0 { (Network::Regtest, Path::Insert) } else { (Network::Testnet, Path::Push) };
        // in the quick tier mostly thresholds whose adaptive depth bound is reached within the
        // case's block limit (bound = 500 - blocks x (500 - threshold) / 1500)
        let threshold: u32 = if quick {
            *rng.pick(&[1u32, 2, 6, 30, 144, 6, 30, 144, 400, 500])
        } else {
            *rng.pick(&[1u32, 2, 6, 30, 144, 400, 499, 500, 700])
        };
        let cfg = HistCfg {
            net,
            path,
            threshold,
            n_each: 1,
            max_txs: 0,
            fork_pct: 0,
            palette: Palette::One,
            fanout_pct: 0,
            share_pct: 0,
            lazy_fees: true,
            sync_gate: false,
            ingest_pct: 100,
            fee_txs: false,
        };
        let mut h = Hist::new(cfg, rng);
        h.report_c03 = true;
        // a very heavy first block becomes the anchor at once (its weight alone exceeds threshold x 1)
        let g = h.model.anchor;
        let heavy: u128 = 1_000_000_000_000;
        let b = h.gen_block(&g);
        let Some(b1) = h.deliver(b, heavy, ctx) else { continue };
        if !h.opportunity(ctx) {
            continue;
        }
        if h.model.anchor != b1 {
            ctx.inconclusive("heavy block did not become the anchor".into());
            continue;
        }
        // three-way variant: a close runner-up that keeps pace with the main branch (lagging by a
        // small margin) plus a short third fork, all rooted at the anchor
        if k % 3 == 2 {
            let lag = h.rng.range(1, 12);
            let third = h.rng.range(1, 3);
            let mut tips = [b1, b1, b1];
            let mut lens = [0u64, 0, 0];
            let limit: u64 = if quick { 330 } else { *h.rng.pick(&[330u64, 420, 520]) };
            let mut advanced = false;
            let mut max_depth = 0u64;
            'grow: for i in 0..(2 * limit + 8) {
                if !ctx.time_left() {
                    ctx.cov.count("deep_cases_cut_by_the_time_budget");
                    break;
                }
                // which fork grows: the third one first, then main and runner-up alternately
                let f = if lens[2] < third {
                    2
                } else if lens[1] + lag < lens[0] && i % 2 == 1 {
                    1
                } else {
                    0
                };
                if lens[0] >= limit {
                    break;
                }
                let bl = h.gen_block(&tips[f]);
                match h.deliver(bl, 1, ctx) {
                    Some(x) => {
                        tips[f] = x;
                        lens[f] += 1;
                    }
                    None => break 'grow,
                }
                let before = h.model.stable_height();
                if !h.opportunity(ctx) {
                    break;
                }
                max_depth = max_depth.max(lens[0]);
                if h.model.stable_height() > before {
                    advanced = true;
                    ctx.cov.count("c03_depth_escape_advances_observed");
                    break;
                }
            }
            ctx.cov.count("deep_three_way_cases");
            ctx.cov.max("max_unstable_depth_reached", max_depth);
            if ctx.cov.samples.len() < 3 {
                ctx.cov.sample(serde_json::json!({"net": crate::gen::net_name(net), "threshold": threshold, "forks_at_anchor": 3,
                    "main": lens[0], "runner_up": lens[1], "third": lens[2], "anchor_advanced": advanced}));
            }
            if let Some(d) = &h.desync {
                if ctx.cov.violations.iter().all(|v| v.case != k || v.lane != "deep") {
                    ctx.inconclusive(format!("deep chain abandoned: {}", d));
                }
            }
            continue;
        }
        // competitor branch of length c hanging off the anchor
        let c: u64 = *h.rng.pick(&[0u64, 1, 2, 10, 60, 200]);
        let c = if quick { c.min(10) } else { c };
        let mut comp_tip = b1;
        let mut main_tip = b1;
        let mut comp_len = 0u64;
        let limit: u64 = if quick { 420 } else { *h.rng.pick(&[420u64, 700, 1600]) };
        let mut advanced_at: Option<u64> = None;
        let mut max_depth = 0u64;
        for i in 0..limit {
            if !ctx.time_left() {
                ctx.cov.count("deep_cases_cut_by_the_time_budget");
                break;
            }
            // interleave: competitor grows first (up to c), sometimes later again
            let grow_comp = comp_len < c && (i < c || h.rng.chance(1, 50));
            if grow_comp {
                let bl = h.gen_block(&comp_tip);
                match h.deliver(bl, 1, ctx) {
                    Some(x) => {
                        comp_tip = x;
                        comp_len += 1;
                    }
                    None => break,
                }
            } else {
                let bl = h.gen_block(&main_tip);
                match h.deliver(bl, 1, ctx) {
                    Some(x) => main_tip = x,
                    None => break,
                }
            }
            let before = h.model.stable_height();
            if !h.opportunity(ctx) {
                break;
            }
            max_depth = max_depth.max(h.model.depth(&h.model.anchor));
            if h.model.stable_height() > before && advanced_at.is_none() {
                advanced_at = Some(i);
                ctx.cov.count("c03_depth_escape_advances_observed");
                // a few more steps, then stop
                if quick {
                    break;
                }
            }
            if !h.model.is_live(&comp_tip) {
                comp_tip = h.model.anchor;
                comp_len = u64::MAX / 2;
            }
            if !h.model.is_live(&main_tip) {
                break;
            }
        }
        ctx.cov.max("max_unstable_depth_reached", max_depth);
        ctx.cov.count(&format!("deep_threshold_{}", threshold));
        if ctx.cov.samples.len() < 3 {
            ctx.cov.sample(serde_json::json!({"net": crate::gen::net_name(net), "threshold": threshold, "competitor_blocks": c,
                "anchor_advanced_after_blocks": advanced_at, "max_unstable_depth": max_depth}));
        }
        if let Some(d) = &h.desync {
            if ctx.cov.violations.iter().all(|v| v.case != k || v.lane != "deep") {
                ctx.inconclusive(format!("deep chain abandoned: {}", d));
            }
        }
    }
}

/// Trees built to tie: two (or three) subtrees of the anchor whose heaviest chains carry exactly the
/// same accumulated difficulty with different (or equal) block counts, plus light side branches
/// of any length, in random parent-before-child arrival order.
fn lane_ties(ctx: &mut Ctx) {
    let max_cases = tier_scale(ctx, 100_000, 10_000_000);
    for k in ctx.cases("ties", max_cases) {
        if !ctx.time_left() {
            break;
        }
        ctx.begin("ties", k);
        let mut rng = Rng::derive(&[ctx.seed, fp_str("ties"), k]);
        let (net, path) = match k % 3 {
            0 => (Network::Regtest, Path::Insert),
            1 => (Network::Mainnet, Path::Push),
            _ => (Network::Testnet, Path::Push),
        };
        let cfg = HistCfg {
            net,
            path,
            threshold: *rng.pick(&[1000u32, 1000, 6, 3]),
            n_each: 1,
            max_txs: 1,
            fork_pct: 0,
            palette: Palette::One,
            fanout_pct: 0,
            share_pct: 0,
            lazy_fees: true,
            sync_gate: false,
            ingest_pct: 100,
            fee_txs: true,
        };
        // plan: nodes (parent index, difficulty); index 0 = the anchor
        let mut plan: Vec<(usize, u128)> = vec![];
        let n_sub = rng.range(2, 3) as usize;
        let la = rng.range(1, 4) as usize;
        let mut sums = vec![];
        let mut chains: Vec<Vec<usize>> = vec![];
        for sidx in 0..n_sub {
            let len = if sidx == 0 { la } else { rng.range(1, 5) as usize };
            let mut ids = vec![];
            let mut parent = 0usize;
            let mut sum: u128 = 0;
            for j in 0..len {
                let d: u128 = if sidx > 0 && j + 1 == len {
                    // make the sums equal if possible
                    let target: u128 = sums[0];
                    if target > sum { target - sum } else { 1 }
                } else if sidx > 0 {
                    let target: u128 = sums[0];
                    let room = target.saturating_sub(sum + (len - j - 1) as u128);
                    if room >= 1 { rng.range(1, room.min(5) as u64) as u128 } else { 1 }
                } else {
                    rng.range(1, 5) as u128
                };
                plan.push((parent, d));
                parent = plan.len();
                ids.push(parent);
                sum += d;
            }
            sums.push(sum);
            chains.push(ids);
        }
        // light side branches
        for _ in 0..rng.range(0, 2) {
            let c = rng.pick(&chains).clone();
            let mut parent = *rng.pick(&c);
            if rng.chance(1, 4) {
                parent = 0;
            }
            for _ in 0..rng.range(1, 6) {
                plan.push((parent, 1));
                parent = plan.len();
            }
        }
        let mut h = Hist::new(cfg, rng);
        h.report_c03 = ctx.prop == "C03";
        let mut delivered: Vec<Option<crate::parse::H>> = vec![None; plan.len() + 1];
        delivered[0] = Some(h.model.anchor);
        let mut remaining: Vec<usize> = (1..=plan.len()).collect();
        while !remaining.is_empty() {
            let ready: Vec<usize> = remaining.iter().cloned().filter(|i| delivered[plan[*i - 1].0].is_some()).collect();
            if ready.is_empty() {
                break;
            }
            let i = *h.rng.pick(&ready);
            remaining.retain(|x| *x != i);
            let parent = delivered[plan[i - 1].0].unwrap();
            if !h.model.is_live(&parent) {
                continue;
            }
            let b = h.gen_block(&parent);
            match h.deliver(b, plan[i - 1].1, ctx) {
                Some(hh) => delivered[i] = Some(hh),
                None => break,
            }
            if !h.opportunity(ctx) {
                break;
            }
            match ctx.prop.as_str() {
                "C02" => mon::check_c02(&mut h, ctx),
                "C04" => mon::check_c04(&mut h, ctx, Some(3), 2),
                "C05" => mon::check_c05(&mut h, ctx, Some(3), &[], 2),
                "C07" => mon::check_c07(&mut h, ctx, false, 40),
                _ => {}
            }
        }
        ctx.cov.count("tie_tree_cases");
        if let Some(d) = &h.desync {
            if ctx.cov.violations.iter().all(|v| v.case != k || v.lane != "ties") {
                ctx.inconclusive(format!("tie tree abandoned: {}", d));
            }
        }
    }
}
