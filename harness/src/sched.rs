//! C13 — cooperative scheduler over the single suspension point, honest adapter model,
//! and trace monitors over the request/reply log.

use crate::cov::{Ctx, Tier};
use crate::gen;
use crate::hist::{Hist, HistCfg, Palette, Path};
use crate::model::Model;
use crate::parse::{self, H};
use crate::rng::{fp_str, Rng};
use crate::world::{self, Out};
use ic_btc_canister as can;
use ic_btc_canister::runtime::GetSuccessorsReply;
use ic_btc_canister::state::ResponseToProcess;
use ic_btc_canister::types::GetSuccessorsRequest;
use ic_btc_interface::Network;
use serde_json::json;
use std::collections::{BTreeSet, HashMap};
use std::future::Future;
use std::pin::Pin;
use std::task::Poll;

fn short(h: &H) -> String {
    gen::hex32(h)[..8].to_string()
}

/// A universe of valid regtest blocks (a tree), in generation order.
pub struct UniverseBlocks {
    pub order: Vec<H>,
    pub bytes: HashMap<H, Vec<u8>>,
    pub parent: HashMap<H, H>,
    pub genesis: H,
    pub uni: crate::gen::Universe,
}

pub fn make_universe(rng: Rng, n: usize, fork_pct: u64, max_txs: usize) -> UniverseBlocks {
    let cfg = HistCfg {
        net: Network::Regtest,
        path: Path::Dry,
        threshold: 1_000_000,
        n_each: 1,
        max_txs,
        fork_pct,
        palette: Palette::One,
        fanout_pct: 10,
        share_pct: 10,
        lazy_fees: true,
        sync_gate: false,
        ingest_pct: 0,
        fee_txs: true,
    };
    let mut h = Hist::new(cfg, rng);
    let mut dummy = Ctx {
        prop: String::new(),
        tier: Tier::Quick,
        seed: 0,
        shard: 0,
        nshards: 1,
        only_case: None,
        cov: Default::default(),
        start: std::time::Instant::now(),
        budget_s: 1e9,
        lane: String::new(),
        case: 0,
    };
    let genesis = h.model.anchor;
    let mut order = vec![];
    for _ in 0..n {
        let p = h.pick_parent();
        if let Some(b) = h.add_block_on(&p, &mut dummy) {
            order.push(b);
        }
    }
    let mut bytes = HashMap::new();
    let mut parent = HashMap::new();
    for b in order.iter() {
        bytes.insert(*b, gen::block_bytes(&h.raw[b]));
        parent.insert(*b, h.model.blocks[b].parent);
    }
    UniverseBlocks { order, bytes, parent, genesis, uni: h.uni.clone() }
}

#[derive(Debug, Clone)]
pub enum ReplyKind {
    /// complete reply with up to n blocks
    Complete(usize),
    /// one block split into 1 + n pages
    Partial(u8),
    Reject,
}

/// Honest adapter: answers requests from the universe.
pub struct Adapter {
    pub available: BTreeSet<H>,
    pub avail_order: Vec<H>,
    /// pages of the block currently being served in pieces
    pub pages: Vec<Vec<u8>>,
    pub partial_block: Option<H>,
    pub partial_next: Vec<Vec<u8>>,
    pub followups_served: u64,
}

impl Adapter {
    pub fn new() -> Self {
        Adapter { available: BTreeSet::new(), avail_order: vec![], pages: vec![], partial_block: None, partial_next: vec![], followups_served: 0 }
    }

    /// successors (BFS over available blocks) of the known set that are not in it
    pub fn successors(&self, u: &UniverseBlocks, known: &BTreeSet<H>) -> Vec<H> {
        let mut out = vec![];
        let mut frontier: BTreeSet<H> = known.clone();
        loop {
            let mut added = false;
            for b in self.avail_order.iter() {
                if frontier.contains(b) {
                    continue;
                }
                if frontier.contains(&u.parent[b]) {
                    out.push(*b);
                    frontier.insert(*b);
                    added = true;
                }
            }
            if !added {
                break;
            }
        }
        out
    }

    pub fn answer(
        &mut self,
        u: &UniverseBlocks,
        req: &GetSuccessorsRequest,
        kind: &ReplyKind,
        rng: &mut Rng,
    ) -> (GetSuccessorsReply, Vec<H>) {
        if let ReplyKind::Reject = kind {
            self.pages.clear();
            self.partial_block = None;
            return (world::reply_reject(), vec![]);
        }
        match req {
            GetSuccessorsRequest::FollowUp(i) => {
                let i = *i as usize;
                if i < self.pages.len() {
                    self.followups_served += 1;
                    (world::reply_follow_up(self.pages[i].clone()), vec![])
                } else {
                    // no such page: an honest adapter cannot serve it
                    (world::reply_reject(), vec![])
                }
            }
            GetSuccessorsRequest::Initial(init) => {
                self.pages.clear();
                self.partial_block = None;
                let mut known: BTreeSet<H> = BTreeSet::new();
                let to_h = |b: &ic_btc_types::BlockHash| -> H {
                    let mut a = [0u8; 32];
                    a.copy_from_slice(b.as_bytes());
                    a
                };
                known.insert(to_h(&init.anchor));
                for p in init.processed_block_hashes.iter() {
                    known.insert(to_h(p));
                }
                let succ = self.successors(u, &known);
                match kind {
                    ReplyKind::Complete(n) => {
                        let take = (*n).min(succ.len());
                        let blocks: Vec<Vec<u8>> = succ[..take].iter().map(|b| u.bytes[b].clone()).collect();
                        let next: Vec<Vec<u8>> = succ[take..].iter().take(8).map(|b| u.bytes[b][..80].to_vec()).collect();
                        (world::reply_complete(blocks, next), succ[..take].to_vec())
                    }
                    ReplyKind::Partial(n) => {
                        if succ.is_empty() {
                            return (world::reply_complete(vec![], vec![]), vec![]);
                        }
                        let b = succ[0];
                        let full = u.bytes[&b].clone();
                        // split into 1 + n pieces at arbitrary points (pieces may be empty)
                        let mut cuts: Vec<usize> = (0..*n).map(|_| rng.usize_below(full.len() + 1)).collect();
                        cuts.sort();
                        let mut pieces: Vec<Vec<u8>> = vec![];
                        let mut prev = 0;
                        for c in cuts {
                            pieces.push(full[prev..c].to_vec());
                            prev = c;
                        }
                        pieces.push(full[prev..].to_vec());
                        let first = pieces.remove(0);
                        self.pages = pieces;
                        self.partial_block = Some(b);
                        let next: Vec<Vec<u8>> = succ[1..].iter().take(8).map(|x| u.bytes[x][..80].to_vec()).collect();
                        self.partial_next = next.clone();
                        if *n == 0 {
                            // a partial reply with no follow-ups is just a complete one
                            self.pages.clear();
                            self.partial_block = None;
                            return (world::reply_complete(vec![full], next), vec![b]);
                        }
                        (world::reply_partial(first, next, *n), vec![b])
                    }
                    ReplyKind::Reject => unreachable!(),
                }
            }
        }
    }
}

type HbFuture = Pin<Box<dyn Future<Output = ()>>>;

pub struct Sched {
    pub parked: Vec<(usize, HbFuture)>,
    pub ops: Vec<String>,
    pub guard_taken_seen: u64,
    pub upgrades_with_request_in_flight: u64,
    pub replies: u64,
    pub rejects: u64,
    pub expected_followup: Option<(u8, u8)>,
    pub expect_initial: bool,
    pub last_request_checked: usize,
}

impl Sched {
    pub fn new() -> Self {
        can::verif_hooks::reset();
        can::verif_hooks::scheduler_enable(true);
        Sched {
            parked: vec![],
            ops: vec![],
            guard_taken_seen: 0,
            upgrades_with_request_in_flight: 0,
            replies: 0,
            rejects: 0,
            expected_followup: None,
            expect_initial: true,
            last_request_checked: 0,
        }
    }

    /// starts a heartbeat and runs it to completion or to the yield point
    pub fn hb(&mut self) -> Out<bool> {
        let before = can::verif_hooks::requests_len();
        let mut fut: HbFuture = Box::pin(can::heartbeat());
        let r = world::guarded(|| world::poll_once(fut.as_mut()));
        match r {
            Out::Trap(m) => Out::Trap(m),
            Out::Ok(Poll::Ready(())) => {
                self.ops.push("HB".into());
                Out::Ok(false)
            }
            Out::Ok(Poll::Pending) => {
                let idx = can::verif_hooks::requests_len() - 1;
                assert!(idx + 1 == before + 1, "exactly one request per parked heartbeat");
                self.parked.push((idx, fut));
                self.ops.push("HB*".into());
                Out::Ok(true)
            }
        }
    }

    /// delivers a reply to the oldest parked request
    pub fn reply(&mut self, reply: GetSuccessorsReply) -> Out<()> {
        let (idx, mut fut) = self.parked.remove(0);
        world::set_replies(vec![reply]);
        can::verif_hooks::release(idx);
        let r = world::guarded(|| world::poll_once(fut.as_mut()));
        match r {
            Out::Trap(m) => Out::Trap(m),
            Out::Ok(Poll::Ready(())) => Out::Ok(()),
            Out::Ok(Poll::Pending) => Out::Trap("heartbeat still pending after its reply".into()),
        }
    }

    pub fn upgrade(&mut self) -> Out<()> {
        if !self.parked.is_empty() {
            self.upgrades_with_request_in_flight += 1;
        }
        // the IC never resumes call contexts of the old instance
        for (_, f) in self.parked.drain(..) {
            std::mem::forget(f);
        }
        self.ops.push("UPG".into());
        self.expect_initial = true;
        self.expected_followup = None;
        let r = world::upgrade(None);
        r
    }
}

pub struct Run {
    pub u: UniverseBlocks,
    pub ad: Adapter,
    pub sc: Sched,
    pub model: Model,
    pub honest: bool,
    pub delivered_bytes: Option<(H, Vec<u8>)>,
    pub offered: BTreeSet<H>,
    pub first_reject_free_step: Option<u64>,
    pub steps: u64,
    pub threshold: u32,
}

fn to_h(b: &ic_btc_types::BlockHash) -> H {
    let mut a = [0u8; 32];
    a.copy_from_slice(b.as_bytes());
    a
}

impl Run {
    pub fn new(u: UniverseBlocks, threshold: u32) -> Run {
        let mut wcfg = world::WorldCfg::new(Network::Regtest, threshold);
        wcfg.lazy_fees = ic_btc_interface::Flag::Enabled;
        world::reset(&wcfg);
        let g = gen::genesis(Network::Regtest);
        let pb = parse::parse_block(&gen::block_bytes(&g)).unwrap();
        let model = Model::new(Network::Regtest, threshold, &pb, 1);
        let sc = Sched::new();
        Run { u, ad: Adapter::new(), sc, model, honest: true, delivered_bytes: None, offered: BTreeSet::new(), first_reject_free_step: None, steps: 0, threshold }
    }

    /// Brings the model in line with the canister's tree: accepts new hashes (must come from the
    /// universe, parent first) and follows anchor advances. Returns a description of any anomaly.
    pub fn sync_model(&mut self) -> Result<(), String> {
        let tree = world::tree_hashes();
        let set: BTreeSet<H> = tree.iter().cloned().collect();
        if set.len() != tree.len() {
            return Err("a block hash appears twice in the tree (applied twice)".into());
        }
        // anchor advances first: walk the stable chain forward
        let can_anchor = tree[0];
        let mut guard = 0;
        while self.model.anchor != can_anchor {
            guard += 1;
            if guard > 10_000 {
                return Err("anchor not reachable".into());
            }
            // accept blocks needed on the way (they were in the tree before being stabilised)
            let next = self
                .model
                .kids(&self.model.anchor)
                .iter()
                .find(|k| crate::hist::is_ancestor_or_self(&self.model, k, &can_anchor))
                .cloned();
            match next {
                Some(n) => {
                    self.model.advance_to(n);
                }
                None => {
                    // maybe blocks were inserted and stabilised between two observations
                    let mut progressed = false;
                    for b in self.u.order.clone() {
                        if !self.model.blocks.contains_key(&b) && self.model.is_live(&self.u.parent[&b]) && self.offered.contains(&b) {
                            let pb = parse::parse_block(&self.u.bytes[&b]).unwrap();
                            self.model.accept(&pb, 1);
                            progressed = true;
                        }
                    }
                    if !progressed {
                        return Err(format!("canister anchor {} is not below the model's anchor {}", short(&can_anchor), short(&self.model.anchor)));
                    }
                }
            }
        }
        // new blocks
        let mut pending: Vec<H> = tree.iter().filter(|h| !self.model.is_live(h)).cloned().collect();
        let mut guard = 0;
        while !pending.is_empty() {
            guard += 1;
            if guard > 10_000 {
                return Err("tree contains a block that does not connect to the model".into());
            }
            let mut rest = vec![];
            let mut progressed = false;
            for b in pending {
                if !self.u.bytes.contains_key(&b) {
                    return Err(format!("tree contains a block that was never offered: {}", short(&b)));
                }
                if !self.offered.contains(&b) {
                    return Err(format!("tree contains block {} although it was never delivered", short(&b)));
                }
                if self.model.is_live(&self.u.parent[&b]) {
                    let pb = parse::parse_block(&self.u.bytes[&b]).unwrap();
                    self.model.accept(&pb, 1);
                    progressed = true;
                } else {
                    rest.push(b);
                }
            }
            if !progressed && !rest.is_empty() {
                return Err("tree contains a block whose parent is not in the tree".into());
            }
            pending = rest;
        }
        let live: BTreeSet<H> = self.model.live_preorder().into_iter().collect();
        if live != set {
            return Err(format!("tree has {} blocks, the model {} (a block vanished or was kept)", set.len(), live.len()));
        }
        Ok(())
    }

    /// M2/M3: checks every request recorded since the last call.
    pub fn check_requests(&mut self) -> Result<(), String> {
        if can::verif_hooks::requests_len() == self.sc.last_request_checked {
            return Ok(());
        }
        let reqs = world::requests_seen();
        for i in self.sc.last_request_checked..reqs.len() {
            let r = &reqs[i];
            match r {
                GetSuccessorsRequest::Initial(init) => {
                    if let Some((next, total)) = self.sc.expected_followup {
                        return Err(format!("request #{} is an initial request while follow-up {} of {} was due", i, next, total));
                    }
                    // names the current anchor and exactly the other unstable blocks
                    let tree = world::tree_hashes();
                    let anchor = to_h(&init.anchor);
                    let mut named: Vec<H> = init.processed_block_hashes.iter().map(to_h).collect();
                    named.sort();
                    let mut others: Vec<H> = tree[1..].to_vec();
                    others.sort();
                    if anchor != tree[0] || named != others {
                        return Err(format!(
                            "initial request #{} names anchor {} and {} processed hashes; the tree has anchor {} and {} other unstable blocks",
                            i, short(&anchor), named.len(), short(&tree[0]), others.len()
                        ));
                    }
                    if init.network != Network::Regtest {
                        return Err("initial request names another network".into());
                    }
                    self.sc.expect_initial = false;
                }
                GetSuccessorsRequest::FollowUp(p) => {
                    match self.sc.expected_followup {
                        Some((next, _total)) if next == *p => {}
                        other => {
                            return Err(format!("request #{} is follow-up {} but expected {:?}", i, p, other));
                        }
                    }
                    if self.sc.expect_initial {
                        return Err(format!("request #{} is a follow-up although an initial request was due (after a reject or upgrade)", i));
                    }
                }
            }
        }
        self.sc.last_request_checked = reqs.len();
        Ok(())
    }
}

#[derive(Clone, Debug, PartialEq)]
pub enum Op {
    Hb,
    Reply(ReplyKindS),
    Query,
    Upgrade,
    MoreBlocks,
}

#[derive(Clone, Debug, PartialEq)]
pub enum ReplyKindS {
    Complete(usize),
    Partial(u8),
    Reject,
}

fn to_kind(k: &ReplyKindS) -> ReplyKind {
    match k {
        ReplyKindS::Complete(n) => ReplyKind::Complete(*n),
        ReplyKindS::Partial(n) => ReplyKind::Partial(*n),
        ReplyKindS::Reject => ReplyKind::Reject,
    }
}

/// Executes one op with all trace monitors. Err(msg) = violation.
pub fn exec(run: &mut Run, op: &Op, rng: &mut Rng, ctx: &mut Ctx) -> Result<(), String> {
    run.steps += 1;
    match op {
        Op::Hb => {
            let had_parked = !run.sc.parked.is_empty();
            match run.sc.hb() {
                Out::Trap(m) => return Err(format!("heartbeat trapped: {}", m)),
                Out::Ok(parked) => {
                    if parked && had_parked {
                        return Err("a second get_successors request was issued while one is outstanding".into());
                    }
                    if !parked && had_parked {
                        run.sc.guard_taken_seen += 1;
                        ctx.cov.count("c13_heartbeats_that_found_the_guard_taken");
                    }
                }
            }
        }
        Op::Reply(kind) => {
            if run.sc.parked.is_empty() {
                return Ok(());
            }
            let idx = run.sc.parked[0].0;
            let req = world::requests_seen()[idx].clone();
            let k = to_kind(kind);
            let (reply, offered) = run.ad.answer(&run.u, &req, &k, rng);
            let is_reject = matches!(reply, GetSuccessorsReply::Err(..));
            for o in offered.iter() {
                run.offered.insert(*o);
            }
            run.sc.ops.push(format!("REPLY#{}:{:?}", idx, kind));
            // bookkeeping of the protocol automaton
            match (&req, &reply) {
                (_, GetSuccessorsReply::Err(..)) => {
                    run.sc.rejects += 1;
                    run.sc.expected_followup = None;
                    run.sc.expect_initial = true;
                    ctx.cov.count(&format!(
                        "c13_rejects_{}",
                        match req {
                            GetSuccessorsRequest::Initial(_) => "on_initial",
                            GetSuccessorsRequest::FollowUp(_) => "between_pages",
                        }
                    ));
                }
                (GetSuccessorsRequest::Initial(_), GetSuccessorsReply::Ok(resp)) => {
                    use ic_btc_canister::types::GetSuccessorsResponse as R;
                    match resp {
                        R::Partial(p) => {
                            run.sc.expected_followup = Some((0, p.remaining_follow_ups));
                            ctx.cov.count("c13_partial_replies");
                        }
                        _ => run.sc.expected_followup = None,
                    }
                }
                (GetSuccessorsRequest::FollowUp(i), GetSuccessorsReply::Ok(_)) => {
                    ctx.cov.count("c13_follow_up_pages_delivered");
                    if let Some((_, total)) = run.sc.expected_followup {
                        if *i + 1 >= total {
                            run.sc.expected_followup = None;
                        } else {
                            run.sc.expected_followup = Some((*i + 1, total));
                        }
                    }
                }
            }
            let was_last_page = matches!(&req, GetSuccessorsRequest::FollowUp(_)) && run.sc.expected_followup.is_none() && !is_reject;
            let rejects_before = world::error_counters().0;
            match run.sc.reply(reply) {
                Out::Trap(m) => return Err(format!("reply handling trapped: {}", m)),
                Out::Ok(()) => {}
            }
            run.sc.replies += 1;
            if is_reject {
                if world::error_counters().0 != rejects_before + 1 {
                    return Err("a reject was not counted".into());
                }
                // partial data must be discarded
                let stored = can::with_state(|s| s.syncing_state.response_to_process.is_some());
                if stored {
                    return Err("a response is still stored after a reject".into());
                }
            }
            if was_last_page {
                // M4: reassembled bit-identically
                if let Some(b) = run.ad.partial_block {
                    let full = run.u.bytes[&b].clone();
                    let ok = can::with_state(|s| match &s.syncing_state.response_to_process {
                        Some(ResponseToProcess::Complete(c)) => c.blocks.len() == 1 && c.blocks[0] == full,
                        _ => false,
                    });
                    ctx.cov.count("c13_reassembled_blocks_compared_bitwise");
                    if !ok {
                        return Err(format!("block {} split over pages was not reassembled bit-identically", short(&b)));
                    }
                }
            }
        }
        Op::Query => {
            // a query at the await point must work and must not disturb anything
            let a = rng.pick(&run.u.uni.addrs).clone();
            if let Out::Trap(m) = world::get_utxos_query(&a.text, Network::Regtest, &world::Filter::None) {
                return Err(format!("query at the await point trapped: {}", m));
            }
            if let Out::Trap(m) = world::info() {
                return Err(format!("get_blockchain_info at the await point trapped: {}", m));
            }
            run.sc.ops.push("Q".into());
        }
        Op::Upgrade => {
            if let Out::Trap(m) = run.sc.upgrade() {
                return Err(format!("upgrade trapped: {}", m));
            }
            ctx.cov.count("c13_upgrades");
        }
        Op::MoreBlocks => {
            let n = rng.range(1, 4) as usize;
            let mut added = 0;
            for b in run.u.order.clone() {
                if !run.ad.available.contains(&b) {
                    run.ad.available.insert(b);
                    run.ad.avail_order.push(b);
                    added += 1;
                    if added == n {
                        break;
                    }
                }
            }
            run.sc.ops.push(format!("AVAIL+{}", added));
        }
    }
    // monitors after every op
    run.check_requests()?;
    // M1: at most one released-pending request
    if run.sc.parked.len() > 1 {
        return Err(format!("{} get_successors requests outstanding", run.sc.parked.len()));
    }
    run.sync_model()?;
    // M5: with an honest adapter no error counter moves (rejects are counted separately)
    let (_rej, deser, ins) = world::error_counters();
    if deser != 0 || ins != 0 {
        return Err(format!("error counters moved with an honest adapter (deserialize {}, insert {})", deser, ins));
    }
    Ok(())
}

/// Drain phase: honest replies only. Returns the number of steps used.
pub fn drain(run: &mut Run, rng: &mut Rng, ctx: &mut Ctx) -> Result<u64, String> {
    // make everything available
    for b in run.u.order.clone() {
        if !run.ad.available.contains(&b) {
            run.ad.available.insert(b);
            run.ad.avail_order.push(b);
        }
    }
    let pages: u64 = 4;
    // pages of a split block that is still being fetched when the drain starts
    let outstanding: u64 = can::with_state(|s| match &s.syncing_state.response_to_process {
        Some(ResponseToProcess::Partial(p, i)) => (p.remaining_follow_ups as u64).saturating_sub(*i as u64),
        _ => 0,
    });
    let bound = 3 * (run.u.order.len() as u64 * (1 + pages) + run.u.order.len() as u64 + outstanding) + 10;
    let mut used = 0u64;
    let mut idle = 0;
    while used < bound {
        let before = world::tree_hashes().len() as u64 + world::stable_height() as u64;
        if run.sc.parked.is_empty() {
            exec(run, &Op::Hb, rng, ctx)?;
        } else {
            let kind = if rng.chance(1, 5) { ReplyKindS::Partial(rng.range(1, 3) as u8) } else { ReplyKindS::Complete(rng.range(1, 3) as usize) };
            exec(run, &Op::Reply(kind), rng, ctx)?;
        }
        used += 1;
        let after = world::tree_hashes().len() as u64 + world::stable_height() as u64;
        // done when nothing is missing
        let known: BTreeSet<H> = world::tree_hashes().into_iter().collect();
        let missing = run.ad.successors(&run.u, &known);
        let stored = can::with_state(|s| s.syncing_state.response_to_process.is_some());
        if missing.is_empty() && !stored && !world::is_ingesting() && run.sc.parked.is_empty() {
            if after == before {
                idle += 1;
            }
            if idle >= 2 {
                return Ok(used);
            }
        }
    }
    let known: BTreeSet<H> = world::tree_hashes().into_iter().collect();
    let missing = run.ad.successors(&run.u, &known);
    if !missing.is_empty() {
        let reqs = world::requests_seen();
        let stored = can::with_state(|s| format!("{:?}", s.syncing_state.response_to_process.as_ref().map(|r| match r {
            ResponseToProcess::Complete(c) => format!("complete {} blocks", c.blocks.len()),
            ResponseToProcess::Partial(p, i) => format!("partial {}/{}", i, p.remaining_follow_ups),
        })));
        return Err(format!(
            "bounded progress: {} offered valid block(s) still not applied after {} honest steps (bound {}); last request {:?}; stored {}; counters {:?}; missing {:?} parent in tree {}",
            missing.len(), used, bound, reqs.last().map(|r| match r { GetSuccessorsRequest::Initial(i) => format!("initial processed={}", i.processed_block_hashes.len()), GetSuccessorsRequest::FollowUp(p) => format!("followup {}", p) }),
            stored, world::error_counters(), short(&missing[0]), known.contains(&run.u.parent[&missing[0]])
        ));
    }
    Ok(used)
}

fn random_op(run: &Run, rng: &mut Rng) -> Op {
    let parked = !run.sc.parked.is_empty();
    let r = rng.below(100);
    if parked && r < 40 {
        let k = match rng.below(10) {
            0..=3 => ReplyKindS::Complete(rng.range(0, 3) as usize),
            4..=6 => ReplyKindS::Partial(*rng.pick(&[1u8, 2, 3, 17, 255])),
            7 => ReplyKindS::Partial(0),
            _ => ReplyKindS::Reject,
        };
        return Op::Reply(k);
    }
    match r {
        0..=69 => Op::Hb,
        70..=79 => Op::Query,
        80..=84 => Op::Upgrade,
        _ => Op::MoreBlocks,
    }
}

pub fn lane_random(ctx: &mut Ctx) {
    let max_cases = if ctx.tier == Tier::Quick { 100_000 } else { 10_000_000 };
    for k in ctx.cases("sched", max_cases) {
        if !ctx.time_left() {
            break;
        }
        ctx.begin("sched", k);
        let mut rng = Rng::derive(&[ctx.seed, fp_str("sched"), k]);
        let n_blocks = rng.range(3, 14) as usize;
        let u = make_universe(Rng::derive(&[ctx.seed, fp_str("sched-u"), k]), n_blocks, *rng.pick(&[0, 20, 40]), 2);
        let threshold = rng.range(1, 6) as u32;
        let mut run = Run::new(u, threshold);
        let steps = rng.range(20, if ctx.tier == Tier::Quick { 120 } else { 600 });
        let mut failed = false;
        for _ in 0..steps {
            let op = random_op(&run, &mut rng);
            if let Err(e) = exec(&mut run, &op, &mut rng, ctx) {
                ctx.violation(e, None, json!({"ops": run.sc.ops, "threshold": threshold}));
                failed = true;
                break;
            }
        }
        if !failed {
            match drain(&mut run, &mut rng, ctx) {
                Ok(used) => {
                    ctx.cov.count("c13_schedules_drained");
                    ctx.cov.max("max_drain_steps", used);
                }
                Err(e) => ctx.violation(e, None, json!({"ops": run.sc.ops, "threshold": threshold})),
            }
        }
        can::verif_hooks::scheduler_enable(false);
        for (_, f) in run.sc.parked.drain(..) {
            std::mem::forget(f);
        }
        ctx.cov.count("c13_schedules");
        ctx.cov.add("c13_replies", run.sc.replies);
        ctx.cov.add("c13_upgrades_with_request_in_flight", run.sc.upgrades_with_request_in_flight);
        ctx.cov.eval(Some(fp_str(&format!("{:?}", run.sc.ops))));
        if ctx.cov.samples.len() < 3 {
            let ops: Vec<String> = run.sc.ops.iter().take(40).cloned().collect();
            ctx.cov.sample(json!({"blocks_in_universe": n_blocks, "threshold": threshold, "first_ops": ops,
                "final_tree_blocks": world::tree_hashes().len(), "stable_height": world::stable_height()}));
        }
    }
}

/// Exhaustive schedules over a small alphabet, up to a length bound.
pub fn lane_exhaustive(ctx: &mut Ctx) {
    let alphabet: Vec<Op> = vec![
        Op::Hb,
        Op::Reply(ReplyKindS::Complete(1)),
        Op::Reply(ReplyKindS::Complete(2)),
        Op::Reply(ReplyKindS::Partial(2)),
        Op::Reply(ReplyKindS::Reject),
        Op::Upgrade,
    ];
    let len = if ctx.tier == Tier::Quick { 5 } else { 7 };
    let total = (alphabet.len() as u64).pow(len);
    let mut complete = true;
    let u_seed = [ctx.seed, fp_str("schedx-u")];
    for k in ctx.cases("schedx", total) {
        if !ctx.time_left() {
            complete = false;
            break;
        }
        ctx.begin("schedx", k);
        // decode k into an op sequence
        let mut seq = vec![];
        let mut x = k;
        for _ in 0..len {
            seq.push(alphabet[(x % alphabet.len() as u64) as usize].clone());
            x /= alphabet.len() as u64;
        }
        let u = make_universe(Rng::derive(&u_seed), 4, 30, 1);
        let mut run = Run::new(u, 2);
        // all blocks available from the start
        for b in run.u.order.clone() {
            run.ad.available.insert(b);
            run.ad.avail_order.push(b);
        }
        let mut rng = Rng::derive(&[ctx.seed, fp_str("schedx"), k]);
        let mut failed = false;
        for op in seq.iter() {
            if let Err(e) = exec(&mut run, op, &mut rng, ctx) {
                ctx.violation(e, None, json!({"ops": run.sc.ops}));
                failed = true;
                break;
            }
        }
        if !failed {
            if let Err(e) = drain(&mut run, &mut rng, ctx) {
                ctx.violation(e, None, json!({"ops": run.sc.ops}));
            }
        }
        can::verif_hooks::scheduler_enable(false);
        for (_, f) in run.sc.parked.drain(..) {
            std::mem::forget(f);
        }
        ctx.cov.count("c13_exhaustive_schedules");
        ctx.cov.eval(Some(fp_str(&format!("x{:?}", seq))));
    }
    if ctx.only_case.is_none() {
        ctx.cov.exhaustive = Some(complete);
    }
}

// ------------------------------------------------------------------------------------ C09

use crate::snap::{self, SnapOpts};

fn phase_label() -> &'static str {
    if world::is_ingesting() {
        return "ingestion_paused";
    }
    can::with_state(|s| match &s.syncing_state.response_to_process {
        Some(ResponseToProcess::Partial(_, _)) => "partial_pages_received",
        Some(ResponseToProcess::Complete(_)) => "response_stored",
        None => {
            if s.syncing_state.is_fetching_blocks {
                "fetching"
            } else {
                "idle"
            }
        }
    })
}

fn run_snapshot(run: &Run, with_fees: bool) -> Vec<(String, String)> {
    let len = run.model.best_chains()[0].len() as u32;
    snap::snapshot_for(
        Network::Regtest,
        &run.u.uni.addrs,
        len,
        run.model.stable_height(),
        &SnapOpts { with_fees, with_utxos_length: false, max_c: 64 },
    )
}

fn utxos_length() -> u64 {
    world::info().ok().map(|i| i.utxos_length).unwrap_or(0)
}

#[derive(Clone, Debug)]
enum UpArg {
    None,
    Threshold(u32),
    Flags,
}

/// Executes the script, optionally injecting an upgrade before op `at`. Returns the final snapshot.
fn run_with_upgrade(
    ctx: &mut Ctx,
    u_seed: &[u64],
    n_blocks: usize,
    threshold: u32,
    script: &[Op],
    budgets: &[Option<u64>],
    at: Option<usize>,
    arg: &UpArg,
    rng_seed: &[u64],
) -> Option<Vec<(String, String)>> {
    let u = make_universe(Rng::derive(u_seed), n_blocks, 0, 3);
    let mut run = Run::new(u, threshold);
    let mut rng = Rng::derive(rng_seed);
    let mut failed = false;
    for (i, op) in script.iter().enumerate() {
        if at == Some(i) {
            if !inject_upgrade(&mut run, ctx, arg) {
                failed = true;
                break;
            }
        } else if at.is_some() && matches!(arg, UpArg::Threshold(_) | UpArg::Flags) {
            // nothing: the twin applies the same config change through set_config at the same point (below)
        }
        if at.is_none() && Some(i) == ctx_twin_point() {
            // unreachable placeholder (twin config changes are applied by the caller through `twin_at`)
        }
        if let Some(k) = budgets[i] {
            can::runtime::verif::performance_counter_reset();
            can::runtime::verif::set_performance_counter_step((1_000_000_000 + k) / (k + 1));
        }
        let r = exec(&mut run, op, &mut rng, ctx);
        can::runtime::verif::performance_counter_reset();
        can::runtime::verif::set_performance_counter_step(0);
        if let Err(e) = r {
            ctx.violation(
                format!("{} (script with an upgrade before op {:?})", e, at),
                None,
                json!({"ops": run.sc.ops, "threshold": threshold}),
            );
            failed = true;
            break;
        }
    }
    if !failed && at == Some(script.len()) {
        if !inject_upgrade(&mut run, ctx, arg) {
            failed = true;
        }
    }
    let mut out = None;
    if !failed {
        match drain(&mut run, &mut rng, ctx) {
            Ok(_) => {
                out = Some(run_snapshot(&run, true));
            }
            Err(e) => ctx.violation(
                format!("{} (after an upgrade before op {:?}: syncing did not resume)", e, at),
                None,
                json!({"ops": run.sc.ops}),
            ),
        }
    }
    can::verif_hooks::scheduler_enable(false);
    for (_, f) in run.sc.parked.drain(..) {
        std::mem::forget(f);
    }
    out
}

fn ctx_twin_point() -> Option<usize> {
    None
}

/// upgrade with before/after comparison of every query answer and of the configuration
fn inject_upgrade(run: &mut Run, ctx: &mut Ctx, arg: &UpArg) -> bool {
    let phase = phase_label();
    ctx.cov.count(&format!("c09_upgrade_in_phase_{}", phase));
    if let Err(e) = run.sync_model() {
        ctx.violation(e, None, json!({"ops": run.sc.ops}));
        return false;
    }
    let before = run_snapshot(run, false);
    let ul_before = utxos_length();
    let deltas: i64 = {
        // defect model for the known finding: per-block utxo deltas of the main chain are lost
        let bk = world::bookkeeping();
        let best: Vec<crate::parse::H> = run.model.best_chains()[0].clone();
        bk.tree
            .iter()
            .filter(|n| {
                let mut a = [0u8; 32];
                a.copy_from_slice(n.0.as_bytes());
                best.contains(&a)
            })
            .map(|n| n.4)
            .sum()
    };
    let cfg_before = format!("{:?}", world::get_config());
    let cfg_struct_before = world::get_config().ok();
    let up_arg = match arg {
        UpArg::None => None,
        UpArg::Threshold(t) => Some(ic_btc_interface::SetConfigRequest { stability_threshold: Some(*t as u128), ..Default::default() }),
        // settings that no query answer depends on, with values that differ from the current ones
        UpArg::Flags => Some(ic_btc_interface::SetConfigRequest {
            watchdog_canister: Some(Some(candid::Principal::anonymous())),
            fees: Some(ic_btc_interface::Fees::mainnet()),
            ..Default::default()
        }),
    };
    // the scheduler forgets in-flight futures, then pre_upgrade + post_upgrade(arg)
    if !run.sc.parked.is_empty() {
        run.sc.upgrades_with_request_in_flight += 1;
    }
    for (_, f) in run.sc.parked.drain(..) {
        std::mem::forget(f);
    }
    run.sc.ops.push(format!("UPG[{}]", phase));
    run.sc.expect_initial = true;
    run.sc.expected_followup = None;
    if let Out::Trap(m) = world::upgrade(up_arg) {
        ctx.violation(format!("upgrade trapped in phase {}: {}", phase, m), None, json!({"ops": run.sc.ops}));
        return false;
    }
    if let UpArg::Threshold(t) = arg {
        run.model.threshold = *t;
        run.threshold = *t;
    }
    let after = run_snapshot(run, false);
    let cfg_after = format!("{:?}", world::get_config());
    ctx.cov.count("c09_before_after_snapshots_compared");
    ctx.cov.eval(Some(fp_str(&format!("c09|{}|{:?}|{}", phase, arg, run.sc.ops.len()))));
    match arg {
        UpArg::None => {
            if cfg_before != cfg_after {
                ctx.violation(format!("configuration changed across an upgrade: {} -> {}", cfg_before, cfg_after), None, json!({"ops": run.sc.ops}));
            }
        }
        // with an argument: exactly the named settings take the given values, nothing else moves
        UpArg::Flags | UpArg::Threshold(_) => {
            if let (Some(mut want), Out::Ok(got)) = (cfg_struct_before, world::get_config()) {
                match arg {
                    UpArg::Threshold(t) => want.stability_threshold = *t as u128,
                    _ => {
                        want.watchdog_canister = Some(candid::Principal::anonymous());
                        want.fees = ic_btc_interface::Fees::mainnet();
                    }
                }
                ctx.cov.count("c09_upgrades_with_config_argument_checked");
                if format!("{:?}", want) != format!("{:?}", got) {
                    ctx.violation(
                        format!("configuration after an upgrade with argument {:?} is {:?}, expected {:?}", arg, got, want),
                        None,
                        json!({"ops": run.sc.ops}),
                    );
                }
            }
        }
    }
    // answers: identical, except get_config entries when an argument was given
    let strip = |v: &Vec<(String, String)>| -> Vec<(String, String)> { v.iter().filter(|(k, _)| k != "get_config").cloned().collect() };
    if let Some(d) = snap::diff(&strip(&before), &strip(&after)) {
        ctx.violation(
            format!("a query answer changed across pre_upgrade/post_upgrade in phase {}: {}", phase, d),
            None,
            json!({"ops": run.sc.ops}),
        );
        return false;
    }
    let ul_after = utxos_length();
    if ul_after != ul_before {
        let stable_len = can::with_state(|s| s.utxos.utxos_len_without_ingesting_block());
        let _ = deltas;
        let sig = if ul_after == stable_len {
            Some("C09:utxos_length-loses-unstable-deltas-across-upgrade".to_string())
        } else {
            None
        };
        ctx.violation(
            format!("get_blockchain_info.utxos_length changed across an upgrade: {} -> {}", ul_before, ul_after),
            sig,
            json!({"ops": run.sc.ops, "phase": phase}),
        );
    }
    true
}

pub fn lane_upgrade_points(ctx: &mut Ctx) {
    let max_cases = if ctx.tier == Tier::Quick { 100_000 } else { 10_000_000 };
    for k in ctx.cases("upgrade", max_cases) {
        if !ctx.time_left() {
            break;
        }
        ctx.begin("upgrade", k);
        let mut rng = Rng::derive(&[ctx.seed, fp_str("upgrade"), k]);
        let n_blocks = rng.range(3, 8) as usize;
        let threshold = rng.range(1, 3) as u32;
        let len = rng.range(8, if ctx.tier == Tier::Quick { 18 } else { 25 }) as usize;
        // script without upgrades: rounds of fetch / (pages) / process / ingest, with noise
        let mut script: Vec<Op> = vec![];
        let mut budgets: Vec<Option<u64>> = vec![];
        let rounds = rng.range(2, if ctx.tier == Tier::Quick { 4 } else { 7 });
        let _ = len;
        for _ in 0..rounds {
            let push = |op: Op, b: Option<u64>, script: &mut Vec<Op>, budgets: &mut Vec<Option<u64>>| {
                script.push(op);
                budgets.push(b);
            };
            if rng.chance(1, 2) {
                push(Op::MoreBlocks, None, &mut script, &mut budgets);
            }
            push(Op::Hb, None, &mut script, &mut budgets);
            let kind = match rng.below(8) {
                0..=3 => ReplyKindS::Complete(rng.range(1, 2) as usize),
                4..=6 => ReplyKindS::Partial(*rng.pick(&[1u8, 2, 3])),
                _ => ReplyKindS::Reject,
            };
            let pages = if let ReplyKindS::Partial(n) = kind { n } else { 0 };
            push(Op::Reply(kind), None, &mut script, &mut budgets);
            for _ in 0..pages {
                push(Op::Hb, None, &mut script, &mut budgets);
                push(Op::Reply(ReplyKindS::Complete(1)), None, &mut script, &mut budgets);
            }
            if rng.chance(1, 3) {
                push(Op::Query, None, &mut script, &mut budgets);
            }
            // process, then ingest in slices
            push(Op::Hb, None, &mut script, &mut budgets);
            for _ in 0..rng.range(1, 3) {
                let b = if rng.chance(2, 3) { Some(rng.range(1, 2)) } else { None };
                push(Op::Hb, b, &mut script, &mut budgets);
            }
        }
        script.insert(0, Op::MoreBlocks);
        budgets.insert(0, None);
        let u_seed = [ctx.seed, fp_str("upgrade-u"), k];
        let r_seed = [ctx.seed, fp_str("upgrade-r"), k];
        let arg = match k % 4 {
            0 => UpArg::Flags,
            _ => UpArg::None,
        };
        let Some(twin) = run_with_upgrade(ctx, &u_seed, n_blocks, threshold, &script, &budgets, None, &UpArg::None, &r_seed) else { continue };
        let mut all = true;
        for at in 0..=script.len() {
            if !ctx.time_left() {
                all = false;
                break;
            }
            let Some(s) = run_with_upgrade(ctx, &u_seed, n_blocks, threshold, &script, &budgets, Some(at), &arg, &r_seed) else { continue };
            ctx.cov.count("c09_boundaries_covered");
            // with the Flags argument only the configuration entry may differ
            let strip = |v: &Vec<(String, String)>| -> Vec<(String, String)> { v.iter().filter(|(k, _)| k != "get_config").cloned().collect() };
            let (a, b) = if matches!(arg, UpArg::None) { (twin.clone(), s.clone()) } else { (strip(&twin), strip(&s)) };
            ctx.cov.count("c09_twin_final_states_compared");
            if let Some(d) = snap::diff(&a, &b) {
                ctx.violation(
                    format!("after an upgrade before message {} the run does not reach the twin's final state: {}", at, d),
                    None,
                    json!({"script": format!("{:?}", script), "threshold": threshold}),
                );
            }
        }
        if all {
            ctx.cov.count("c09_scripts_with_every_boundary_covered");
        }
        if ctx.cov.samples.len() < 3 {
            ctx.cov.sample(json!({"blocks": n_blocks, "threshold": threshold, "script": format!("{:?}", script), "upgrade_argument": format!("{:?}", arg)}));
        }
    }
}
