//! C11 — header acceptance equals the Bitcoin consensus header rules.

use crate::cov::{Ctx, Tier};
use crate::gen;
use crate::refhdr::{self, Hist2, Verdict};
use crate::rng::{fp_str, Rng};
use crate::world;
use bitcoin::blockdata::block::{Header, Version};
use bitcoin::hashes::Hash;
use bitcoin::{BlockHash, CompactTarget, TxMerkleNode};
use ic_btc_interface::Network;
use ic_btc_validation::{HeaderStore, HeaderValidator};
use serde_json::json;
use std::collections::HashMap;
use std::str::FromStr;
use std::time::Duration;

pub struct Scripted {
    pub by_hash: HashMap<BlockHash, Header>,
    pub by_height: HashMap<u32, Header>,
    pub height: u32,
}

impl HeaderStore for Scripted {
    fn get_with_block_hash(&self, hash: &BlockHash) -> Option<Header> {
        self.by_hash.get(hash).cloned()
    }
    fn get_with_height(&self, height: u32) -> Option<Header> {
        self.by_height.get(&height).cloned()
    }
    fn height(&self) -> u32 {
        self.height
    }
}

fn mk_header(prev: BlockHash, time: u32, bits: u32, nonce: u32) -> Header {
    Header {
        version: Version::from_consensus(0x2000_0000),
        prev_blockhash: prev,
        merkle_root: TxMerkleNode::all_zeros(),
        time,
        bits: CompactTarget::from_consensus(bits),
        nonce,
    }
}

/// Builds a scripted store for rows (time, bits) at heights lo..=prev_height, really linked.
/// Returns the store and the header at prev_height.
fn build_store(lo: u32, rows: &[(u32, u32)], rng: &mut Rng) -> (Scripted, Header) {
    let mut by_hash = HashMap::new();
    let mut by_height = HashMap::new();
    let mut prev = if lo == 0 {
        BlockHash::all_zeros()
    } else {
        let mut r = [0u8; 32];
        r.copy_from_slice(&rng.bytes(32));
        BlockHash::from_byte_array(r)
    };
    let mut last = None;
    for (i, (time, bits)) in rows.iter().enumerate() {
        let h = mk_header(prev, *time, *bits, i as u32);
        prev = h.block_hash();
        by_hash.insert(prev, h);
        by_height.insert(lo + i as u32, h);
        last = Some(h);
    }
    if lo > 0 {
        // some genesis header for `get_initial_hash`
        let g = mk_header(BlockHash::all_zeros(), 1, 0x1d00ffff, 0);
        by_height.insert(0, g);
    }
    let height = lo + rows.len() as u32 - 1;
    (Scripted { by_hash, by_height, height }, last.unwrap())
}

fn btc_net(n: Network) -> bitcoin::Network {
    gen::btc_network(n)
}

fn limit_bits(n: Network) -> u32 {
    match n {
        Network::Regtest => 0x207fffff,
        _ => 0x1d00ffff,
    }
}

fn random_bits(rng: &mut Rng, net: Network) -> u32 {
    // a standard regtest chain only ever has pow-limit bits; the rule is nevertheless defined for
    // any header chain (custom genesis), so other values are exercised as well
    if net == Network::Regtest && rng.chance(1, 2) {
        return 0x207fffff;
    }
    if net == Network::Regtest && rng.chance(1, 2) {
        return *rng.pick(&[0x2000ffffu32, 0x1f00ffff, 0x1e0377ae]);
    }
    match rng.below(6) {
        0 => 0x1d00ffff,
        1 => 0x1c7fffff,
        2 => 0x1b0404cb,
        3 => 0x171f3a08,
        _ => {
            let exp = rng.range(0x16, 0x1c) as u32;
            let mant = rng.range(0x010000, 0x7fffff) as u32;
            (exp << 24) | mant
        }
    }
}

/// Synthetic (time, bits) rows ending at prev_height, covering what the rule may read.
fn synth_rows(rng: &mut Rng, net: Network, prev_height: u32) -> (u32, Vec<(u32, u32)>) {
    let base = (prev_height / refhdr::INTERVAL) * refhdr::INTERVAL;
    let need_first = if (prev_height + 1) % refhdr::INTERVAL == 0 { prev_height + 1 - refhdr::INTERVAL } else { base };
    let lo = need_first.min(prev_height.saturating_sub(12)).min(base);
    let n = (prev_height - lo + 1) as usize;
    let period_bits = random_bits(rng, net);
    // total time span of the period: below a quarter, inside, above four times, or negative
    let mode = rng.below(6);
    let step: i64 = match mode {
        0 => rng.range(1, 140) as i64,          // fast: < timespan/4
        1 => rng.range(2300, 2600) as i64,      // slow: > 4x
        2 => 600,
        3 => rng.range(145, 155) as i64,        // around the lower clamp
        4 => rng.range(2390, 2410) as i64,      // around the upper clamp
        _ => rng.range(300, 1200) as i64,
    };
    let mut rows = Vec::with_capacity(n);
    let mut t: i64 = 1_500_000_000 + rng.range(0, 1000) as i64;
    // a run of minimum-difficulty blocks of random length before prev (testnet rule)
    let run = if net != Network::Mainnet && rng.chance(1, 2) { rng.range(0, 40.min(n as u64)) as usize } else { 0 };
    for i in 0..n {
        let jitter: i64 = if rng.chance(1, 10) { -(rng.range(0, 3000) as i64) } else { rng.range(0, 100) as i64 };
        t += step + jitter;
        if t < 1_000_000 {
            t = 1_000_000;
        }
        let bits = if i >= n - run { limit_bits(net) } else { period_bits };
        rows.push((t as u32, bits));
    }
    // occasionally make the last block older than the first of the period (negative timespan)
    if rng.chance(1, 12) && n > 2 {
        let f = rows[0].0;
        let k = n - 1;
        rows[k].0 = f.saturating_sub(rng.range(0, 5000) as u32);
    }
    (lo, rows)
}

pub fn lane_numeric(ctx: &mut Ctx) {
    let max_cases = if ctx.tier == Tier::Quick { 200_000 } else { 20_000_000 };
    for k in ctx.cases("numeric", max_cases) {
        if !ctx.time_left() {
            break;
        }
        ctx.begin("numeric", k);
        let mut rng = Rng::derive(&[ctx.seed, fp_str("numeric"), k]);
        let net = *rng.pick(&[Network::Mainnet, Network::Testnet, Network::Testnet, Network::Regtest]);
        let prev_height: u32 = match rng.below(8) {
            0 => 2015,
            1 => 4031,
            2 => 2014,
            3 => 2016,
            4 => rng.range(0, 30) as u32,
            5 => 2016 * rng.range(1, 400) as u32 - 1,
            _ => rng.range(0, 6000) as u32,
        };
        let (lo, rows) = synth_rows(&mut rng, net, prev_height);
        let (store, prev) = build_store(lo, &rows, &mut rng);
        let ptime = rows.last().unwrap().0;
        let ts: u32 = match rng.below(5) {
            0 => ptime + 1200,
            1 => ptime + 1201,
            2 => ptime.saturating_sub(rng.range(0, 100) as u32),
            3 => ptime + rng.range(1, 1199) as u32,
            _ => ptime + rng.range(1202, 100_000) as u32,
        };
        let hist = Hist2 { lo, rows: &rows };
        let want_bits = refhdr::next_work_required(net, &hist, ts);
        let (want, _, _) = refhdr::set_compact(want_bits);
        let validator = HeaderValidator::new(store, btc_net(net));
        let got = world::guarded(|| validator.verif_next_target(&prev, prev_height, ts));
        let retarget = (prev_height + 1) % refhdr::INTERVAL == 0;
        ctx.cov.count(&format!("c11_numeric_{}", gen::net_name(net)));
        if retarget {
            ctx.cov.count("c11_numeric_retarget_boundary_cases");
        }
        ctx.cov.eval(Some(fp_str(&format!("c11n|{}|{}|{}|{:08x}", gen::net_name(net), prev_height % 2016, retarget, want_bits))));
        match got {
            world::Out::Trap(m) => ctx.violation(
                format!("required-target computation trapped at height {} on {}: {}", prev_height + 1, gen::net_name(net), m),
                None,
                json!({"prev_height": prev_height, "rows_tail": rows.iter().rev().take(5).collect::<Vec<_>>()}),
            ),
            world::Out::Ok(t) => {
                let got_be = t.to_be_bytes();
                if got_be != want.to_be_bytes() {
                    ctx.violation(
                        format!(
                            "required target at height {} on {} is {} per the canister, consensus requires {} (bits {:08x})",
                            prev_height + 1, gen::net_name(net), hex::encode(got_be), hex::encode(want.to_be_bytes()), want_bits
                        ),
                        None,
                        json!({"prev_height": prev_height, "timestamp": ts, "prev_time": ptime, "first_row": rows[0], "last_rows": rows.iter().rev().take(4).collect::<Vec<_>>(),
                               "retarget": retarget}),
                    );
                }
            }
        }
        if ctx.cov.samples.len() < 3 && retarget {
            ctx.cov.sample(json!({"net": gen::net_name(net), "height": prev_height + 1, "first_time": rows[0].0, "prev_time": ptime, "prev_bits": format!("{:08x}", rows.last().unwrap().1),
                "required_bits": format!("{:08x}", want_bits)}));
        }
    }
}

pub fn load_real_headers() -> Vec<Header> {
    let path = "/repo/validation/tests/data/headers.csv";
    let Ok(text) = std::fs::read_to_string(path) else { return vec![] };
    let mut v = vec![];
    for line in text.lines().skip(1) {
        let f: Vec<&str> = line.split(',').collect();
        if f.len() < 6 {
            continue;
        }
        let h = Header {
            version: Version::from_consensus(i32::from_str_radix(f[0], 16).unwrap_or(0)),
            prev_blockhash: BlockHash::from_str(f[1]).unwrap(),
            merkle_root: TxMerkleNode::from_str(f[2]).unwrap(),
            time: u32::from_str_radix(f[3], 16).unwrap(),
            bits: CompactTarget::from_consensus(u32::from_str_radix(f[4], 16).unwrap()),
            nonce: u32::from_str_radix(f[5], 16).unwrap(),
        };
        v.push(h);
    }
    // keep only a really linked, PoW-valid prefix
    let mut out: Vec<Header> = vec![];
    for h in v {
        if let Some(p) = out.last() {
            if h.prev_blockhash != p.block_hash() {
                break;
            }
        }
        out.push(h);
    }
    out
}

const MAINNET_HEADER_586656: &str = "00008020cff0e07ab39db0f31d4ded81ba2339173155b9c57839110000000000000000007a2d75dce5981ec421a54df706d3d407f66dc9170f1e0d6e48ed1e8a1cad7724e9ed365d083a1f17bc43b10a";

fn hash_le(h: &Header) -> [u8; 32] {
    h.block_hash().to_byte_array()
}

/// Decisions on PoW-valid headers with a scripted history: every rule in both directions.
pub fn lane_decisions(ctx: &mut Ctx) {
    let real = load_real_headers();
    if real.len() < 100 {
        ctx.inconclusive("real mainnet headers not available".into());
        return;
    }
    let max_cases = if ctx.tier == Tier::Quick { 200_000 } else { 20_000_000 };
    for k in ctx.cases("decisions", max_cases) {
        if !ctx.time_left() {
            break;
        }
        ctx.begin("decisions", k);
        let mut rng = Rng::derive(&[ctx.seed, fp_str("decisions"), k]);
        let net = *rng.pick(&[Network::Mainnet, Network::Mainnet, Network::Testnet, Network::Regtest]);
        // candidate: a real PoW-valid mainnet header, or a harness-mined easy header
        let cand: Header = if rng.chance(3, 4) {
            *rng.pick(&real[1..])
        } else {
            let bits = *rng.pick(&[0x207fffffu32, 0x2000ffff, 0x1f00ffff]);
            let mut h = mk_header(BlockHash::all_zeros(), 1_500_100_000 + rng.range(0, 100_000) as u32, bits, 0);
            let mut r = [0u8; 32];
            r.copy_from_slice(&rng.bytes(32));
            h.prev_blockhash = BlockHash::from_byte_array(r);
            gen::mine_header(&mut h);
            h
        };
        let mut cand = cand;
        if rng.chance(1, 10) {
            // spoil the proof of work
            cand.nonce ^= 1 << rng.below(32);
        }
        let cbits = cand.bits.to_consensus();
        let prev_height: u32 = match rng.below(6) {
            0 => 2015,
            1 => 2016 * rng.range(1, 300) as u32 - 1,
            2 => rng.range(0, 15) as u32,
            _ => rng.range(20, 700_000) as u32,
        };
        // history: mostly consistent with the candidate (so that acceptance is reachable)
        let base = (prev_height / refhdr::INTERVAL) * refhdr::INTERVAL;
        let need_first = if (prev_height + 1) % refhdr::INTERVAL == 0 { prev_height + 1 - refhdr::INTERVAL } else { base };
        let lo = need_first.min(prev_height.saturating_sub(12)).min(base);
        let n = (prev_height - lo + 1) as usize;
        let hist_bits = if rng.chance(3, 4) { cbits } else { random_bits(&mut rng, net) };
        let mut rows: Vec<(u32, u32)> = Vec::with_capacity(n);
        // times ending a little below the candidate's, with the median at a chosen offset
        let spacing: u32 = if (prev_height + 1) % refhdr::INTERVAL == 0 { 600 } else { rng.range(1, 900) as u32 };
        let end_offset: i64 = match rng.below(6) {
            0 => 0,                                   // prev time == candidate time
            1 => -(rng.range(1, 2000) as i64),        // prev later than candidate
            2 => rng.range(1, 1200) as i64,
            3 => rng.range(1201, 5000) as i64,
            4 => 1200,
            _ => rng.range(1, 100_000) as i64,
        };
        let end = (cand.time as i64 - end_offset).max(2_000_000) as u32;
        for i in 0..n {
            let back = (n - 1 - i) as u32;
            rows.push((end.saturating_sub(back.saturating_mul(spacing)), hist_bits));
        }
        // perturb the last 11 timestamps so that the median lands just below / at / above the candidate
        match rng.below(5) {
            0 => {
                for j in 0..n.min(6) {
                    let k2 = n - 1 - j;
                    rows[k2].0 = cand.time;
                }
            }
            1 => {
                for j in 0..n.min(6) {
                    let k2 = n - 1 - j;
                    rows[k2].0 = cand.time.saturating_sub(1);
                }
            }
            2 => {
                for j in 0..n.min(6) {
                    let k2 = n - 1 - j;
                    rows[k2].0 = cand.time + 1;
                }
            }
            _ => {}
        }
        if net != Network::Mainnet && rng.chance(1, 3) {
            // a run of minimum-difficulty blocks at the end
            let run = rng.range(1, 30.min(n as u64)) as usize;
            for j in 0..run {
                rows[n - 1 - j].1 = limit_bits(net);
            }
        }
        let (mut store, prev) = build_store(lo, &rows, &mut rng);
        // the scripted store presents this history under the candidate's parent hash
        store.by_hash.insert(cand.prev_blockhash, prev);
        let now: u64 = match rng.below(5) {
            0 => (cand.time as u64).saturating_sub(7200),
            1 => (cand.time as u64).saturating_sub(7201),
            2 => (cand.time as u64).saturating_sub(7199),
            3 => cand.time as u64 + rng.range(0, 100_000),
            _ => (cand.time as u64).saturating_sub(rng.range(7000, 7400)),
        };
        let hist = Hist2 { lo, rows: &rows };
        let want = refhdr::header_verdict(net, &hist, cand.time, cbits, &hash_le(&cand), now);
        let validator = HeaderValidator::new(store, btc_net(net));
        let got = world::guarded(|| validator.validate_header(&cand, Duration::from_secs(now)));
        let reason = match &want {
            Verdict::Accept => "accept",
            Verdict::Reject(r) => r,
        };
        ctx.cov.count(&format!("c11_decisions_{}_{}", gen::net_name(net), if want == Verdict::Accept { "accepted" } else { "rejected" }));
        ctx.cov.count(&format!("c11_rule_{}", reason.split(' ').take(3).collect::<Vec<_>>().join("_")));
        ctx.cov.eval(Some(fp_str(&format!("c11d|{}|{}|{}|{:08x}", gen::net_name(net), reason, (prev_height + 1) % 2016 == 0, cbits))));
        let detail = json!({"net": gen::net_name(net), "candidate": hex::encode(gen::header_bytes(&cand)), "prev_height": prev_height, "now": now,
            "last_rows": rows.iter().rev().take(12).collect::<Vec<_>>(), "first_row": rows[0], "reference": reason});
        match (&want, &got) {
            (_, world::Out::Trap(m)) => ctx.violation(format!("validate_header trapped: {}", m), None, detail),
            (Verdict::Accept, world::Out::Ok(Ok(()))) => {}
            (Verdict::Reject(_), world::Out::Ok(Err(_))) => {}
            (Verdict::Accept, world::Out::Ok(Err(e))) => ctx.violation(
                format!("a header that satisfies every consensus rule was rejected on {}: {:?}", gen::net_name(net), e),
                None,
                detail,
            ),
            (Verdict::Reject(r), world::Out::Ok(Ok(()))) => ctx.violation(
                format!("a header was accepted on {} although {}", gen::net_name(net), r),
                None,
                detail,
            ),
        }
        // a header whose parent the store does not know is never accepted
        if rng.chance(1, 20) {
            let mut orphan = cand;
            let mut r = [0u8; 32];
            r.copy_from_slice(&rng.bytes(32));
            orphan.prev_blockhash = BlockHash::from_byte_array(r);
            if let world::Out::Ok(Ok(())) = world::guarded(|| validator.validate_header(&orphan, Duration::from_secs(now))) {
                ctx.violation("a header with an unknown parent was accepted".into(), None, json!({}));
            }
            ctx.cov.count("c11_unknown_parent_cases");
        }
    }
}

/// Replay of the real mainnet chain (spans the retarget at height 588672) with the real history,
/// plus single-field perturbations of every header.
pub fn lane_real_chain(ctx: &mut Ctx) {
    let real = load_real_headers();
    if real.len() < 2100 {
        return;
    }
    let genesis_like: Header = bitcoin::consensus::deserialize(&hex::decode(MAINNET_HEADER_586656).unwrap()).unwrap();
    if real[0].prev_blockhash != genesis_like.block_hash() {
        return;
    }
    let base_height = 586_656u32;
    let chunk = 64usize;
    let n_chunks = (real.len() + chunk - 1) / chunk;
    for k in ctx.cases("realchain", n_chunks as u64) {
        if !ctx.time_left() {
            break;
        }
        ctx.begin("realchain", k);
        let mut rng = Rng::derive(&[ctx.seed, fp_str("realchain"), k]);
        let start = k as usize * chunk;
        for i in start..(start + chunk).min(real.len()) {
            // store: real headers up to i-1 (height base+i), anchor at base
            let lo_i = i.saturating_sub(2100);
            let mut by_hash = HashMap::new();
            let mut by_height = HashMap::new();
            by_hash.insert(genesis_like.block_hash(), genesis_like);
            by_height.insert(base_height, genesis_like);
            by_height.insert(0, genesis_like);
            for j in lo_i..i {
                by_hash.insert(real[j].block_hash(), real[j]);
                by_height.insert(base_height + 1 + j as u32, real[j]);
            }
            let store = Scripted { by_hash, by_height, height: base_height + i as u32 };
            let validator = HeaderValidator::new(store, bitcoin::Network::Bitcoin);
            let cand = real[i];
            let now = cand.time as u64 + 1000;
            let height = base_height + 1 + i as u32;
            ctx.cov.count("c11_real_mainnet_headers_replayed");
            if height % 2016 == 0 {
                ctx.cov.count("c11_real_retarget_headers_replayed");
            }
            ctx.cov.eval(Some(fp_str(&format!("c11r|{}", i))));
            match world::guarded(|| validator.validate_header(&cand, Duration::from_secs(now))) {
                world::Out::Ok(Ok(())) => {}
                other => ctx.violation(
                    format!("the real mainnet header at height {} was not accepted: {:?}", height, other),
                    None,
                    json!({"header": hex::encode(gen::header_bytes(&cand))}),
                ),
            }
            // perturbations: each must be rejected (the PoW no longer matches, or the rule fails)
            let mut muts: Vec<(&str, Header)> = vec![];
            let mut m = cand;
            m.nonce ^= 1 << rng.below(32);
            muts.push(("nonce", m));
            let mut m = cand;
            m.time ^= 1 << rng.below(20);
            muts.push(("time", m));
            let mut m = cand;
            m.bits = CompactTarget::from_consensus(cand.bits.to_consensus() + 1);
            muts.push(("bits", m));
            let mut m = cand;
            m.version = Version::from_consensus(cand.version.to_consensus() ^ 2);
            muts.push(("version", m));
            for (name, m) in muts {
                ctx.cov.count("c11_real_header_perturbations");
                if let world::Out::Ok(Ok(())) = world::guarded(|| validator.validate_header(&m, Duration::from_secs(now))) {
                    // only a violation if the reference agrees that it must be rejected: the hash changed,
                    // so with overwhelming probability it no longer meets the target
                    let hash = refhdr::U256::from_le_bytes(&hash_le(&m));
                    let (t, _, _) = refhdr::set_compact(m.bits.to_consensus());
                    if hash.gt(&t) || name == "bits" {
                        ctx.violation(format!("a real header with a flipped {} was accepted at height {}", name, height), None, json!({}));
                    }
                }
            }
        }
    }
}

/// The canister's own header store (its validation context over stable headers, the unstable tree
/// and pending announced headers) in front of the validator, at heights where the height matters.
/// A regtest canister is started on a genesis with non-limit bits (so that the walk-back and the
/// 2016-block boundary are distinguishable from "always minimum difficulty"), a chain is grown to
/// just below a multiple of 2016 through `state::insert_block`, and then blocks and announced
/// headers (on tree blocks and on top of other announced headers that are still pending) are
/// offered across the boundary. Every accept/reject is compared with the reference rule on the
/// true chain.
pub fn lane_boundary(ctx: &mut Ctx) {
    let max_cases = if ctx.tier == Tier::Quick { 4_000 } else { 400_000 };
    for k in ctx.cases("boundary", max_cases) {
        if !ctx.time_left() {
            break;
        }
        ctx.begin("boundary", k);
        let mut rng = Rng::derive(&[ctx.seed, fp_str("boundary"), k]);
        let net = Network::Regtest;
        let base_bits: u32 = *rng.pick(&[0x207ffffeu32, 0x207ffffe, 0x207ffff0, 0x2000ffff]);
        let limit = limit_bits(net);
        let now = world::MOCK_NOW_SECS;
        let t0 = (now - 2016 * 600 * 3) as u32;
        let mut g = gen::genesis(net);
        g.header.bits = CompactTarget::from_consensus(base_bits);
        g.header.time = t0;
        g.header.nonce = 0;
        gen::mine_header(&mut g.header);
        world::reset_with_genesis(&world::WorldCfg::new(net, 2), &g, 1);
        // (time, bits) by height of the chain the next candidate extends (tree + pending headers)
        let mut rows: Vec<(u32, u32)> = vec![(t0, base_bits)];
        let mut tip_hash = gen::hash_of(&g);
        let stop: u32 = 2016 - 1 - rng.range(0, 7) as u32; // height of the last block delivered in bulk
        let mut uniq = k.wrapping_mul(1_000_003);
        let mut ok = true;
        // bulk phase: valid blocks, a few long gaps (minimum-difficulty blocks) near the end
        for h in 1..=stop {
            let (ptime, _) = rows[rows.len() - 1];
            let long_gap = h + 60 > stop && rng.chance(1, 6);
            let time = ptime + if long_gap { 1201 + rng.range(0, 600) as u32 } else { rng.range(1, 1200) as u32 };
            let bits = refhdr::next_work_required(net, &Hist2 { lo: 0, rows: &rows }, time);
            uniq += 1;
            let cb = gen::coinbase_tx(h, uniq, vec![(50, vec![0x51])]);
            let b = gen::make_block_bits(bits, tip_hash, time, vec![cb], true);
            match world::insert_block(&b, None) {
                world::Out::Ok(Ok(())) => {}
                other => {
                    ctx.violation(
                        format!("a block that satisfies every header rule was refused at height {} of a regtest chain with base bits {:08x}: {:?}", h, base_bits, other),
                        None,
                        json!({"height": h, "time": time, "bits": format!("{:08x}", bits), "last_rows": rows.iter().rev().take(12).collect::<Vec<_>>()}),
                    );
                    ok = false;
                    break;
                }
            }
            let _ = world::ingest_stable();
            rows.push((time, bits));
            tip_hash = gen::hash_of(&b);
        }
        if !ok {
            continue;
        }
        ctx.cov.count("c11_boundary_chains_built");
        // probing phase
        let mut pending: Vec<bitcoin::Block> = vec![]; // announced, not yet delivered (oldest first)
        let steps = rng.range(6, 14);
        for _ in 0..steps {
            let height = rows.len() as u32; // height of the candidate
            let (ptime, pbits) = rows[rows.len() - 1];
            // deliver the oldest pending block now and then
            if !pending.is_empty() && rng.chance(1, 4) {
                let b = pending.remove(0);
                match world::insert_block(&b, None) {
                    world::Out::Ok(Ok(())) => ctx.cov.count("c11_boundary_pending_blocks_delivered"),
                    other => {
                        ctx.violation(
                            format!("the block of an accepted announced header was refused at height {}: {:?}", height - 1 - pending.len() as u32, other),
                            None,
                            json!({"pending_after": pending.len()}),
                        );
                        break;
                    }
                }
                let _ = world::ingest_stable();
                continue;
            }
            let as_header = !pending.is_empty() || rng.chance(2, 3);
            // candidates: (time, bits)
            let mut cands: Vec<(u32, u32)> = vec![];
            for gap in [rng.range(1, 1200) as u32, 1200, 1201, 1201 + rng.range(1, 3000) as u32] {
                let time = ptime + gap;
                let need = refhdr::next_work_required(net, &Hist2 { lo: 0, rows: &rows }, time);
                for bits in [need, limit, base_bits, pbits] {
                    if !cands.contains(&(time, bits)) {
                        cands.push((time, bits));
                    }
                }
            }
            // refused candidates leave no trace, so all of them are tried first
            let mut accepted_choice: Vec<(bitcoin::Block, u32, u32)> = vec![];
            for (time, bits) in cands {
                uniq += 1;
                let cb = gen::coinbase_tx(height, uniq, vec![(50, vec![0x51])]);
                let b = gen::make_block_bits(bits, tip_hash, time, vec![cb], true);
                let want = refhdr::header_verdict(net, &Hist2 { lo: 0, rows: &rows }, time, bits, &hash_le(&b.header), now);
                if want == Verdict::Accept {
                    accepted_choice.push((b, time, bits));
                    continue;
                }
                let got = offer(&b, as_header);
                ctx.cov.count(if as_header { "c11_boundary_headers_offered" } else { "c11_boundary_blocks_offered" });
                ctx.cov.eval(Some(fp_str(&format!("c11b|{}|{}|{}|{:08x}|{}|rej", height, pending.len(), as_header, bits, time - ptime > 1200))));
                match got {
                    Err(m) => {
                        ctx.violation(format!("offering a header at height {} trapped: {}", height, m), None, json!({}));
                        ok = false;
                    }
                    Ok(true) => {
                        ctx.violation(
                            format!(
                                "{} at height {} ({} announced headers pending below it) that violates the header rules was accepted: bits {:08x}, {} s after its parent; the rule requires {:08x}",
                                if as_header { "an announced header" } else { "a block" }, height, pending.len(), bits, time - ptime,
                                refhdr::next_work_required(net, &Hist2 { lo: 0, rows: &rows }, time)
                            ),
                            None,
                            json!({"height": height, "pending": pending.len(), "base_bits": format!("{:08x}", base_bits), "last_rows": rows.iter().rev().take(12).collect::<Vec<_>>()}),
                        );
                        ok = false;
                    }
                    Ok(false) => {}
                }
                if !ok {
                    break;
                }
            }
            if !ok || accepted_choice.is_empty() {
                break;
            }
            let idx = rng.usize_below(accepted_choice.len());
            let (b, time, bits) = accepted_choice.swap_remove(idx);
            let got = offer(&b, as_header);
            ctx.cov.count(if as_header { "c11_boundary_headers_offered" } else { "c11_boundary_blocks_offered" });
            ctx.cov.eval(Some(fp_str(&format!("c11b|{}|{}|{}|{:08x}|{}|acc", height, pending.len(), as_header, bits, time - ptime > 1200))));
            if height % 2016 == 0 {
                ctx.cov.count(&format!("c11_boundary_at_2016_with_{}_pending", pending.len()));
            }
            match got {
                Ok(true) => {}
                other => {
                    ctx.violation(
                        format!(
                            "{} at height {} ({} announced headers pending below it) that satisfies every header rule was refused: bits {:08x}, {} s after its parent ({:?})",
                            if as_header { "an announced header" } else { "a block" }, height, pending.len(), bits, time - ptime, other
                        ),
                        None,
                        json!({"height": height, "pending": pending.len(), "base_bits": format!("{:08x}", base_bits), "last_rows": rows.iter().rev().take(12).collect::<Vec<_>>()}),
                    );
                    break;
                }
            }
            rows.push((time, bits));
            tip_hash = gen::hash_of(&b);
            if as_header {
                pending.push(b);
            } else {
                let _ = world::ingest_stable();
            }
        }
        if ctx.cov.samples.len() < 3 {
            ctx.cov.sample(json!({"lane": "boundary", "base_bits": format!("{:08x}", base_bits), "bulk_height": stop, "final_height": rows.len() - 1, "pending_at_end": pending.len()}));
        }
    }
}

/// Offers a block (insert path) or only its header (announced-header path); Ok(true) = it is now
/// part of the tree / of the stored announced headers.
fn offer(b: &bitcoin::Block, as_header: bool) -> Result<bool, String> {
    if as_header {
        let blob = world::header_blob(gen::header_bytes(&b.header));
        let hash = gen::hash_of(b);
        match world::guarded(|| ic_btc_canister::with_state_mut(|s| ic_btc_canister::state::insert_next_block_headers(s, &[blob]))) {
            world::Out::Trap(m) => Err(m),
            world::Out::Ok(()) => Ok(world::bookkeeping().next_by_hash.iter().any(|(h, _, _)| h.to_vec() == hash.to_vec())),
        }
    } else {
        match world::insert_block(b, None) {
            world::Out::Trap(m) => Err(m),
            world::Out::Ok(r) => Ok(r.is_ok()),
        }
    }
}
