//! Coverage accumulators, violation records, lane context.

use serde_json::{json, Value};
use std::collections::{BTreeMap, BTreeSet};
use std::time::Instant;

#[derive(Clone, Copy, Debug, PartialEq)]
pub enum Tier {
    Quick,
    Thorough,
}

#[derive(Clone, Debug)]
pub struct Violation {
    pub property: String,
    pub lane: String,
    pub case: u64,
    pub summary: String,
    /// exact signature used to match entries of known_findings.json
    pub signature: Option<String>,
    pub detail: Value,
}

#[derive(Default, Debug)]
pub struct Cov {
    pub evaluations: u64,
    pub fps: BTreeSet<u64>,
    pub counters: BTreeMap<String, u64>,
    pub samples: Vec<Value>,
    pub violations: Vec<Violation>,
    pub inconclusive: Vec<String>,
    pub cases: u64,
    pub exhaustive: Option<bool>,
}

impl Cov {
    pub fn count(&mut self, key: &str) {
        *self.counters.entry(key.to_string()).or_insert(0) += 1;
    }
    pub fn add(&mut self, key: &str, n: u64) {
        *self.counters.entry(key.to_string()).or_insert(0) += n;
    }
    pub fn max(&mut self, key: &str, n: u64) {
        let e = self.counters.entry(key.to_string()).or_insert(0);
        if n > *e {
            *e = n;
        }
    }
    /// one oracle evaluation; `nontrivial` carries the fingerprint of the case if it is non-trivial
    pub fn eval(&mut self, nontrivial: Option<u64>) {
        self.evaluations += 1;
        if let Some(f) = nontrivial {
            if self.fps.len() < 2_000_000 {
                self.fps.insert(f);
            }
        }
    }
    pub fn sample(&mut self, v: Value) {
        if self.samples.len() < 7 {
            self.samples.push(v);
        }
    }
    pub fn to_json(&self) -> Value {
        json!({
            "evaluations": self.evaluations,
            "fps": self.fps.iter().collect::<Vec<_>>(),
            "counters": self.counters,
            "samples": self.samples,
            "cases": self.cases,
            "exhaustive": self.exhaustive,
            "inconclusive": self.inconclusive,
            "violations": self.violations.iter().map(|v| json!({
                "property": v.property, "lane": v.lane, "case": v.case, "summary": v.summary,
                "signature": v.signature, "detail": v.detail
            })).collect::<Vec<_>>(),
        })
    }
}

/// Case indices of one shard: shard, shard+n, shard+2n, ... below `max` (lazy: caps can be huge).
pub struct CaseIter {
    next: u64,
    step: u64,
    max: u64,
}

impl Iterator for CaseIter {
    type Item = u64;
    fn next(&mut self) -> Option<u64> {
        if self.next >= self.max {
            return None;
        }
        let k = self.next;
        self.next = self.next.saturating_add(self.step);
        Some(k)
    }
}

pub struct Ctx {
    pub prop: String,
    pub tier: Tier,
    pub seed: u64,
    pub shard: u64,
    pub nshards: u64,
    pub only_case: Option<(String, u64)>,
    pub cov: Cov,
    pub start: Instant,
    pub budget_s: f64,
    pub lane: String,
    pub case: u64,
}

impl Ctx {
    pub fn time_left(&self) -> bool {
        self.start.elapsed().as_secs_f64() < self.budget_s
    }
    pub fn elapsed(&self) -> f64 {
        self.start.elapsed().as_secs_f64()
    }
    /// Iterates over the case indices of this shard for a lane: k = shard, shard+n, ...
    /// up to `max_cases` (global) or until the time budget (fraction) is used.
    pub fn cases(&self, lane: &str, max_cases: u64) -> CaseIter {
        if let Some((l, k)) = &self.only_case {
            if l == lane {
                return CaseIter { next: *k, step: u64::MAX, max: k.saturating_add(1) };
            }
            return CaseIter { next: 1, step: 1, max: 0 };
        }
        CaseIter { next: self.shard, step: self.nshards, max: max_cases }
    }
    pub fn begin(&mut self, lane: &str, case: u64) {
        self.lane = lane.to_string();
        self.case = case;
        self.cov.cases += 1;
        if self.cov.samples.is_empty() {
            // the first case of every worker is always written out (replayable by lane and index)
            self.cov.samples.push(json!({"lane": lane, "case_index": case, "seed": self.seed, "note": "replay with --replay on a file naming this lane/case"}));
        }
    }
    pub fn violation(&mut self, summary: String, signature: Option<String>, detail: Value) {
        // cap the number of recorded violations per worker
        if self.cov.violations.len() < 40 {
            self.cov.violations.push(Violation {
                property: self.prop.clone(),
                lane: self.lane.clone(),
                case: self.case,
                summary,
                signature,
                detail,
            });
        }
        self.cov.count("violations_raised");
    }
    pub fn inconclusive(&mut self, why: String) {
        if self.cov.inconclusive.len() < 20 {
            self.cov
                .inconclusive
                .push(format!("{}#{}: {}", self.lane, self.case, why));
        }
        self.cov.count("inconclusive_cases");
    }
}
