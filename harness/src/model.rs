//! REFERENCE MODEL — written from the statements in properties.jsonl and the
//! interface specification. Shares no code with the canister.

use crate::parse::{PBlock, PTx, H};
use ic_btc_interface::Network;
use std::collections::{BTreeMap, BTreeSet, HashMap};
use std::rc::Rc;

#[derive(Clone, Debug)]
pub struct MBlock {
    pub hash: H,
    pub parent: H,
    pub height: u32,
    pub difficulty: u128,
    pub seq: u64,
    pub header: Vec<u8>,
    pub time: u32,
    pub txs: Vec<PTx>,
}

#[derive(Clone, Debug, PartialEq)]
pub struct Utxo {
    pub value: u64,
    pub script: Rc<Vec<u8>>,
    pub height: u32,
}

pub type Ledger = BTreeMap<(H, u32), Utxo>;

/// One reported UTXO as the API shows it.
#[derive(Clone, Debug, PartialEq, Eq, PartialOrd, Ord, Hash)]
pub struct AUtxo {
    pub height: u32,
    pub txid: H,
    pub vout: u32,
    pub value: u64,
}

#[derive(Clone, Debug, PartialEq)]
pub enum Decision {
    /// every reading of the rule selects this child
    Must(H),
    /// every reading says: no child qualifies
    MustNot,
    /// readings disagree: admissible outcomes (None = no advance)
    May(Vec<Option<H>>),
}

pub struct Model {
    pub net: Network,
    pub threshold: u32,
    pub blocks: HashMap<H, MBlock>,
    pub children: HashMap<H, Vec<H>>,
    pub anchor: H,
    /// hashes of stable blocks by height (the anchor is NOT included)
    pub stable_chain: Vec<H>,
    /// every hash ever removed from the tree as part of a losing fork
    pub discarded: BTreeSet<H>,
    pub next_seq: u64,
    /// ledger after all stable blocks (= before the anchor's own transactions)
    pub stable_ledger: Rc<Ledger>,
    ledger_cache: HashMap<H, Rc<Ledger>>,
    pub tx_invalid: Option<String>,
}

fn apply_block(ledger: &mut Ledger, b: &MBlock) -> Result<(), String> {
    for tx in &b.txs {
        if !tx.is_coinbase() {
            for (txid, vout) in &tx.inputs {
                if ledger.remove(&(*txid, *vout)).is_none() {
                    return Err(format!(
                        "input {}:{} not unspent on this chain",
                        hex::encode(txid),
                        vout
                    ));
                }
            }
        }
        for (i, (value, script)) in tx.outputs.iter().enumerate() {
            ledger.insert(
                (tx.txid, i as u32),
                Utxo {
                    value: *value,
                    script: script.clone(),
                    height: b.height,
                },
            );
        }
    }
    Ok(())
}

impl Model {
    pub fn new(net: Network, threshold: u32, genesis: &PBlock, genesis_difficulty: u128) -> Model {
        let g = MBlock {
            hash: genesis.hash,
            parent: genesis.prev,
            height: 0,
            difficulty: genesis_difficulty,
            seq: 0,
            header: genesis.header.clone(),
            time: genesis.time,
            txs: genesis.txs.clone(),
        };
        let mut blocks = HashMap::new();
        blocks.insert(g.hash, g.clone());
        Model {
            net,
            threshold,
            blocks,
            children: HashMap::new(),
            anchor: g.hash,
            stable_chain: vec![],
            discarded: BTreeSet::new(),
            next_seq: 1,
            stable_ledger: Rc::new(Ledger::new()),
            ledger_cache: HashMap::new(),
            tx_invalid: None,
        }
    }

    pub fn stable_height(&self) -> u32 {
        self.stable_chain.len() as u32
    }

    pub fn is_live(&self, h: &H) -> bool {
        // live = anchor or descendant of the anchor that was not discarded
        if *h == self.anchor {
            return true;
        }
        match self.blocks.get(h) {
            None => false,
            Some(b) => {
                b.height > self.stable_height() && !self.discarded.contains(h) && {
                    // walk to the anchor
                    let mut cur = b.parent;
                    loop {
                        if cur == self.anchor {
                            break true;
                        }
                        match self.blocks.get(&cur) {
                            Some(p) if p.height > self.stable_height() => cur = p.parent,
                            _ => break false,
                        }
                    }
                }
            }
        }
    }

    pub fn kids(&self, h: &H) -> &[H] {
        self.children.get(h).map(|v| v.as_slice()).unwrap_or(&[])
    }

    /// All live hashes in pre-order (children in arrival order), anchor first.
    pub fn live_preorder(&self) -> Vec<H> {
        let mut out = vec![];
        let mut stack = vec![self.anchor];
        while let Some(h) = stack.pop() {
            out.push(h);
            for k in self.kids(&h).iter().rev() {
                stack.push(*k);
            }
        }
        out
    }

    /// Admission per the statement of C10 (structure only; header/body validity is the caller's).
    pub fn can_connect(&self, b: &PBlock) -> Result<(), &'static str> {
        if self.is_live(&b.hash) || self.blocks.contains_key(&b.hash) && self.is_live(&b.hash) {
            return Err("already present");
        }
        if !self.is_live(&b.prev) {
            return Err("parent is neither the anchor nor an unstable block");
        }
        Ok(())
    }

    /// Adds a block whose parent is live. Returns its height.
    pub fn accept(&mut self, b: &PBlock, difficulty: u128) -> u32 {
        let parent = self.blocks.get(&b.prev).expect("parent known");
        let height = parent.height + 1;
        let mb = MBlock {
            hash: b.hash,
            parent: b.prev,
            height,
            difficulty,
            seq: self.next_seq,
            header: b.header.clone(),
            time: b.time,
            txs: b.txs.clone(),
        };
        self.next_seq += 1;
        self.children.entry(b.prev).or_default().push(b.hash);
        self.blocks.insert(b.hash, mb);
        self.discarded.remove(&b.hash);
        height
    }

    // ---------------------------------------------------------------- tree metrics

    /// number of blocks on the longest descendant chain, `h` included
    pub fn depth(&self, h: &H) -> u64 {
        // iterative post-order
        let mut memo: HashMap<H, u64> = HashMap::new();
        let mut stack = vec![(*h, false)];
        while let Some((x, done)) = stack.pop() {
            if done {
                let d = self.kids(&x).iter().map(|k| memo[k]).max().unwrap_or(0) + 1;
                memo.insert(x, d);
            } else {
                stack.push((x, true));
                for k in self.kids(&x) {
                    stack.push((*k, false));
                }
            }
        }
        memo[h]
    }

    /// max accumulated difficulty over chains from `h` (included) to a leaf
    pub fn dwork(&self, h: &H) -> u128 {
        let mut memo: HashMap<H, u128> = HashMap::new();
        let mut stack = vec![(*h, false)];
        while let Some((x, done)) = stack.pop() {
            if done {
                let d = self.kids(&x).iter().map(|k| memo[k]).max().unwrap_or(0)
                    + self.blocks[&x].difficulty;
                memo.insert(x, d);
            } else {
                stack.push((x, true));
                for k in self.kids(&x) {
                    stack.push((*k, false));
                }
            }
        }
        memo[h]
    }

    pub fn live_count(&self) -> usize {
        self.live_preorder().len()
    }

    /// All root-to-leaf paths from the anchor, each with the child-arrival-index sequence.
    pub fn leaf_paths(&self) -> Vec<(Vec<H>, Vec<usize>)> {
        let mut out = vec![];
        let mut stack: Vec<(Vec<H>, Vec<usize>)> = vec![(vec![self.anchor], vec![])];
        while let Some((path, idx)) = stack.pop() {
            let last = *path.last().unwrap();
            let kids = self.kids(&last);
            if kids.is_empty() {
                out.push((path, idx));
            } else {
                for (i, k) in kids.iter().enumerate() {
                    let mut p = path.clone();
                    p.push(*k);
                    let mut ix = idx.clone();
                    ix.push(i);
                    stack.push((p, ix));
                }
            }
        }
        out
    }

    /// Admissible best chains. First element: the "first-divergence" reading
    /// (at the first point where tied branches part, the earlier-received child wins).
    /// A second element, if present, is the "tip received first" reading.
    pub fn best_chains(&self) -> Vec<Vec<H>> {
        let paths = self.leaf_paths();
        let key = |p: &Vec<H>| -> (u128, usize) {
            (
                p.iter().map(|h| self.blocks[h].difficulty).sum::<u128>(),
                p.len(),
            )
        };
        let best = paths.iter().map(|(p, _)| key(p)).max().unwrap();
        let tied: Vec<&(Vec<H>, Vec<usize>)> =
            paths.iter().filter(|(p, _)| key(p) == best).collect();
        let r1 = tied.iter().min_by(|a, b| a.1.cmp(&b.1)).unwrap();
        let r2 = tied
            .iter()
            .min_by_key(|(p, _)| self.blocks[p.last().unwrap()].seq)
            .unwrap();
        let mut out = vec![r1.0.clone()];
        if r2.0 != r1.0 {
            out.push(r2.0.clone());
        }
        out
    }

    pub fn best_is_longest(&self) -> bool {
        let best = &self.best_chains()[0];
        best.len() as u64 == self.depth(&self.anchor)
    }

    // ---------------------------------------------------------------- stability rule

    /// documented adaptive depth bound: 500 falling linearly to min(threshold, 499)
    /// as the tree approaches 1500 blocks. Returns the admissible roundings.
    pub fn depth_bounds(&self, total_blocks: u64) -> Vec<u64> {
        let maxd: u64 = 500;
        let mind: u64 = (self.threshold as u64).min(maxd - 1);
        if total_blocks >= 1500 {
            return vec![mind];
        }
        // value = 500 - total*(500-min)/1500, as a rational with denominator 1500
        let num = maxd * 1500 - total_blocks * (maxd - mind); // value * 1500
        let fl = num / 1500;
        let rem = num % 1500;
        if rem * 2 == 1500 {
            vec![fl, fl + 1]
        } else if rem * 2 > 1500 {
            vec![fl + 1]
        } else {
            vec![fl]
        }
    }

    pub fn decide(&self) -> Decision {
        let kids = self.kids(&self.anchor).to_vec();
        if kids.is_empty() {
            return Decision::MustNot;
        }
        let thr: u128 = self.blocks[&self.anchor].difficulty * self.threshold as u128;
        let d: Vec<u128> = kids.iter().map(|k| self.dwork(k)).collect();
        let dep: Vec<u64> = kids.iter().map(|k| self.depth(k)).collect();

        // difficulty rule — at most one child can satisfy it when thr >= 1
        let mut by_difficulty: Option<usize> = None;
        for i in 0..kids.len() {
            let ok = d[i] >= thr
                && (0..kids.len()).all(|j| j == i || (d[i] >= d[j] && d[i] - d[j] >= thr));
            if ok {
                by_difficulty = Some(i);
                break;
            }
        }

        let mut outcomes: Vec<Option<H>> = vec![];
        let push = |o: Option<H>, outcomes: &mut Vec<Option<H>>| {
            if !outcomes.contains(&o) {
                outcomes.push(o);
            }
        };

        let escape_nets = matches!(self.net, Network::Testnet | Network::Regtest);
        if !escape_nets {
            push(by_difficulty.map(|i| kids[i]), &mut outcomes);
        } else {
            // depth escape, evaluated under every reading that the statement leaves open
            let total = self.live_count() as u64;
            let mut bounds = self.depth_bounds(total);
            for b in self.depth_bounds(total.saturating_sub(1)) {
                if !bounds.contains(&b) {
                    bounds.push(b);
                }
            }
            let dmax = *d.iter().max().unwrap();
            for bound in bounds {
                // candidate readings: (i) only a child with maximal accumulated difficulty,
                // (ii) any child
                for cand_any in [false, true] {
                    // runner-up readings: (a) a sibling with the highest accumulated difficulty
                    // among the others, (b) the deepest other sibling
                    for runner_by_depth in [false, true] {
                        let mut esc: Vec<usize> = vec![];
                        for i in 0..kids.len() {
                            if !cand_any && d[i] != dmax {
                                continue;
                            }
                            if dep[i] < bound {
                                continue;
                            }
                            let others: Vec<usize> = (0..kids.len()).filter(|j| *j != i).collect();
                            let runner_depths: Vec<u64> = if others.is_empty() {
                                vec![0]
                            } else if runner_by_depth {
                                vec![others.iter().map(|j| dep[*j]).max().unwrap()]
                            } else {
                                let od = others.iter().map(|j| d[*j]).max().unwrap();
                                others
                                    .iter()
                                    .filter(|j| d[**j] == od)
                                    .map(|j| dep[*j])
                                    .collect()
                            };
                            for rd in runner_depths {
                                if dep[i].saturating_sub(rd) >= bound {
                                    if !esc.contains(&i) {
                                        esc.push(i);
                                    }
                                }
                            }
                        }
                        if esc.is_empty() {
                            push(by_difficulty.map(|i| kids[i]), &mut outcomes);
                        } else {
                            for i in esc {
                                push(Some(kids[i]), &mut outcomes);
                            }
                            // when ties make the escape candidate itself a matter of reading,
                            // the difficulty rule's verdict stays admissible too
                            if d.iter().filter(|x| **x == dmax).count() > 1 {
                                push(by_difficulty.map(|i| kids[i]), &mut outcomes);
                            }
                        }
                    }
                }
            }
        }
        if outcomes.len() == 1 {
            match outcomes[0] {
                Some(h) => Decision::Must(h),
                None => Decision::MustNot,
            }
        } else {
            Decision::May(outcomes)
        }
    }

    /// Makes `child` the new anchor; everything not below it is discarded.
    pub fn advance_to(&mut self, child: H) -> Vec<H> {
        assert!(self.kids(&self.anchor).contains(&child));
        let old = self.anchor;
        // fold the old anchor into the stable ledger
        let mut l = (*self.stable_ledger).clone();
        if let Err(e) = apply_block(&mut l, &self.blocks[&old]) {
            self.tx_invalid = Some(e);
        }
        self.stable_ledger = Rc::new(l);
        self.stable_chain.push(old);
        // discard the siblings' subtrees
        let mut gone = vec![];
        let sibs: Vec<H> = self
            .kids(&old)
            .iter()
            .filter(|k| **k != child)
            .cloned()
            .collect();
        let mut stack = sibs;
        while let Some(h) = stack.pop() {
            gone.push(h);
            self.discarded.insert(h);
            for k in self.kids(&h) {
                stack.push(*k);
            }
        }
        for g in &gone {
            self.children.remove(g);
        }
        self.children.insert(old, vec![child]);
        self.anchor = child;
        self.ledger_cache.clear();
        gone
    }

    // ---------------------------------------------------------------- ledgers

    /// Ledger after applying the chain genesis..=tip (tip must be live).
    pub fn ledger_at(&mut self, tip: &H) -> Rc<Ledger> {
        if let Some(l) = self.ledger_cache.get(tip) {
            return l.clone();
        }
        // collect path from anchor to tip
        let mut path = vec![];
        let mut cur = *tip;
        loop {
            path.push(cur);
            if cur == self.anchor {
                break;
            }
            cur = self.blocks[&cur].parent;
        }
        path.reverse();
        let mut ledger: Rc<Ledger> = self.stable_ledger.clone();
        for h in path {
            if let Some(l) = self.ledger_cache.get(&h) {
                ledger = l.clone();
                continue;
            }
            let mut l = (*ledger).clone();
            if let Err(e) = apply_block(&mut l, &self.blocks[&h]) {
                self.tx_invalid = Some(format!("block {}: {}", hex::encode(h), e));
            }
            ledger = Rc::new(l);
            if self.ledger_cache.len() > 4000 {
                self.ledger_cache.clear();
            }
            self.ledger_cache.insert(h, ledger.clone());
        }
        ledger
    }

    /// What `get_utxos` must report for `script` as of `tip` (set semantics; order is checked separately).
    pub fn utxos_of(&mut self, tip: &H, script: &[u8]) -> Vec<AUtxo> {
        let l = self.ledger_at(tip);
        let mut v: Vec<AUtxo> = l
            .iter()
            .filter(|(_, u)| u.script.as_slice() == script)
            .map(|((txid, vout), u)| AUtxo {
                height: u.height,
                txid: *txid,
                vout: *vout,
                value: u.value,
            })
            .collect();
        v.sort();
        v
    }

    pub fn path_from_anchor(&self, tip: &H) -> Vec<H> {
        let mut path = vec![];
        let mut cur = *tip;
        loop {
            path.push(cur);
            if cur == self.anchor {
                break;
            }
            cur = self.blocks[&cur].parent;
        }
        path.reverse();
        path
    }

    // ---------------------------------------------------------------- confirmations (C04)

    /// For a best chain: the cut block for min_confirmations = c (c >= 1), or Err if c is too large.
    pub fn cut_block(&self, chain: &[H], c: u32) -> Result<H, ()> {
        if c as usize > chain.len() {
            return Err(());
        }
        // depth of every live block, grouped by height
        let mut by_height: BTreeMap<u32, Vec<(H, u64)>> = BTreeMap::new();
        for h in self.live_preorder() {
            by_height
                .entry(self.blocks[&h].height)
                .or_default()
                .push((h, self.depth(&h)));
        }
        let mut tip = chain[0];
        for b in chain {
            let hgt = self.blocks[b].height;
            let row = &by_height[&hgt];
            let own = row.iter().find(|(h, _)| h == b).unwrap().1 as i64;
            let other = row
                .iter()
                .filter(|(h, _)| h != b)
                .map(|(_, d)| *d as i64)
                .max()
                .unwrap_or(0);
            if own - other < c as i64 {
                break;
            }
            tip = *b;
        }
        Ok(tip)
    }

    // ---------------------------------------------------------------- headers (C07)

    /// header bytes of the chain that ends in `best` (stable part + unstable best chain)
    pub fn header_chain(&self, best: &[H]) -> Vec<Vec<u8>> {
        let mut v: Vec<Vec<u8>> = self
            .stable_chain
            .iter()
            .map(|h| self.blocks[h].header.clone())
            .collect();
        for h in best {
            v.push(self.blocks[h].header.clone());
        }
        v
    }

    // ---------------------------------------------------------------- fees (C15)

    /// Fee rates (millisat/vbyte, rounded down) of the non-coinbase transactions of `block`,
    /// in block order. Needs the ledger of the parent chain to price the inputs.
    pub fn fee_rates_of(&mut self, block: &H) -> Vec<u64> {
        let b = self.blocks[block].clone();
        let parent_ledger: Rc<Ledger> = if *block == self.anchor {
            self.stable_ledger.clone()
        } else {
            self.ledger_at(&b.parent)
        };
        let mut local: HashMap<(H, u32), u64> = HashMap::new();
        let mut out = vec![];
        for tx in &b.txs {
            if !tx.is_coinbase() {
                let mut insum: u128 = 0;
                let mut ok = true;
                for i in &tx.inputs {
                    if let Some(v) = local.get(i) {
                        insum += *v as u128;
                    } else if let Some(u) = parent_ledger.get(i) {
                        insum += u.value as u128;
                    } else {
                        ok = false;
                    }
                }
                let outsum: u128 = tx.outputs.iter().map(|o| o.0 as u128).sum();
                if ok && insum >= outsum && tx.vsize() > 0 {
                    out.push(((insum - outsum) * 1000 / tx.vsize() as u128) as u64);
                }
            }
            for (i, o) in tx.outputs.iter().enumerate() {
                local.insert((tx.txid, i as u32), o.0);
            }
        }
        out
    }
}

/// nearest-rank percentiles 0..=100 of a non-empty multiset
pub fn nearest_rank(values: &[u64]) -> Vec<u64> {
    let mut v = values.to_vec();
    v.sort();
    let n = v.len() as u64;
    (0..=100u64)
        .map(|p| {
            // smallest rank r (1-based) with r/n >= p/100  <=>  r = ceil(p*n/100), at least 1
            let r = ((p * n + 99) / 100).max(1);
            v[(r - 1) as usize]
        })
        .collect()
}
