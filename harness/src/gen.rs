//! Generators: address zoo (incl. string-prefix twins), scripts, transactions, blocks.
//! The generator may use the `bitcoin` library freely: it produces *inputs*. The
//! oracles (model.rs) never call into the canister crates.

use crate::rng::Rng;
use bitcoin::absolute::LockTime;
use bitcoin::blockdata::block::{Header, Version};
use bitcoin::hashes::Hash;
use bitcoin::transaction::Version as TxVersion;
use bitcoin::{
    Address, Amount, Block, BlockHash, CompactTarget, Network as BtcNetwork, OutPoint, ScriptBuf,
    Sequence, Transaction, TxIn, TxMerkleNode, TxOut, Witness,
};
use ic_btc_interface::Network;

pub fn btc_network(n: Network) -> BtcNetwork {
    match n {
        Network::Mainnet => BtcNetwork::Bitcoin,
        Network::Testnet => BtcNetwork::Testnet4,
        Network::Regtest => BtcNetwork::Regtest,
    }
}

pub fn net_name(n: Network) -> &'static str {
    match n {
        Network::Mainnet => "mainnet",
        Network::Testnet => "testnet",
        Network::Regtest => "regtest",
    }
}

pub fn pow_bits(n: Network) -> u32 {
    match n {
        Network::Regtest => 0x207fffff,
        _ => 0x1d00ffff,
    }
}

#[derive(Clone, Debug)]
pub struct Addr {
    pub text: String,
    pub script: Vec<u8>,
    pub kind: &'static str,
}

#[derive(Clone, Debug)]
pub struct Universe {
    pub net: Network,
    pub addrs: Vec<Addr>,
    /// scripts that have no address (P2PK, multisig, OP_RETURN, empty, oversized, ...)
    pub plain_scripts: Vec<(Vec<u8>, &'static str)>,
    /// indices (short, long) of string-prefix twins in `addrs`
    pub twins: Vec<(usize, usize)>,
}

fn push_data(script: &mut Vec<u8>, data: &[u8]) {
    assert!(data.len() <= 75);
    script.push(data.len() as u8);
    script.extend_from_slice(data);
}

pub fn script_p2pkh(h: &[u8]) -> Vec<u8> {
    let mut s = vec![0x76, 0xa9];
    push_data(&mut s, &h[..20]);
    s.extend_from_slice(&[0x88, 0xac]);
    s
}
pub fn script_p2sh(h: &[u8]) -> Vec<u8> {
    let mut s = vec![0xa9];
    push_data(&mut s, &h[..20]);
    s.push(0x87);
    s
}
pub fn script_witness(version: u8, program: &[u8]) -> Vec<u8> {
    let mut s = vec![if version == 0 { 0 } else { 0x50 + version }];
    push_data(&mut s, program);
    s
}

pub fn address_text(script: &[u8], net: Network) -> Option<String> {
    Address::from_script(bitcoin::Script::from_bytes(script), btc_network(net))
        .ok()
        .map(|a| a.to_string())
}

const BECH32: &[u8] = b"qpzry9x8gf2tvdw0s3jn54khce6mua7l";

fn bech32_val(c: u8) -> u8 {
    BECH32.iter().position(|x| *x == c).expect("bech32 char") as u8
}

/// Given a segwit address text, builds a witness program of `new_len` bytes (same
/// witness version) whose address text starts with the whole given text.
pub fn twin_of(text: &str, version: u8, new_len: usize, net: Network, rng: &mut Rng) -> Option<Addr> {
    let sep = text.rfind('1')?;
    let data = &text.as_bytes()[sep + 1..];
    // data[0] is the version character; the rest (program groups + checksum) become a prefix
    // of the new program's groups.
    let mut groups: Vec<u8> = data[1..].iter().map(|c| bech32_val(*c)).collect();
    let m = (8 * new_len + 4) / 5; // ceil(8L/5)
    if groups.len() > m {
        return None;
    }
    let pad = 5 * m - 8 * new_len;
    while groups.len() < m {
        groups.push(rng.below(32) as u8);
    }
    // zero the padding bits of the last group
    let last = groups.len() - 1;
    let masked = groups[last] & !((1u8 << pad) - 1);
    if masked != groups[last] {
        if m == data.len() - 1 {
            return None; // cannot alter a fixed char
        }
        groups[last] = masked;
    }
    // regroup 5 -> 8
    let mut acc: u32 = 0;
    let mut bits = 0;
    let mut bytes = vec![];
    for g in groups {
        acc = (acc << 5) | g as u32;
        bits += 5;
        while bits >= 8 {
            bits -= 8;
            bytes.push(((acc >> bits) & 0xff) as u8);
        }
    }
    if bytes.len() != new_len {
        return None;
    }
    let script = script_witness(version, &bytes);
    let t = address_text(&script, net)?;
    if !t.starts_with(text) || t == text {
        return None;
    }
    Some(Addr {
        text: t,
        script,
        kind: "twin_long",
    })
}

impl Universe {
    pub fn new(net: Network, rng: &mut Rng, n_each: usize) -> Universe {
        let mut addrs = vec![];
        let mut twins = vec![];
        let add = |addrs: &mut Vec<Addr>, script: Vec<u8>, kind: &'static str| -> usize {
            let text = address_text(&script, net).expect("address for script");
            addrs.push(Addr { text, script, kind });
            addrs.len() - 1
        };
        for _ in 0..n_each {
            add(&mut addrs, script_p2pkh(&rng.bytes(20)), "p2pkh");
            add(&mut addrs, script_p2sh(&rng.bytes(20)), "p2sh");
            add(&mut addrs, script_witness(0, &rng.bytes(20)), "p2wpkh");
            add(&mut addrs, script_witness(0, &rng.bytes(32)), "p2wsh");
            add(&mut addrs, script_witness(1, &rng.bytes(32)), "p2tr");
        }
        // future witness versions and odd program lengths
        for _ in 0..n_each.max(1) {
            let v = rng.range(2, 16) as u8;
            let l = rng.range(2, 40) as usize;
            add(&mut addrs, script_witness(v, &rng.bytes(l)), "wit_future");
        }
        // prefix twins: v0 20 -> 32 bytes, v1 20 -> 32 bytes, vN short -> long
        for _ in 0..n_each.max(1) {
            let short = add(&mut addrs, script_witness(0, &rng.bytes(20)), "twin_short");
            let text = addrs[short].text.clone();
            if let Some(t) = twin_of(&text, 0, 32, net, rng) {
                addrs.push(t);
                twins.push((short, addrs.len() - 1));
            }
            let short = add(&mut addrs, script_witness(1, &rng.bytes(20)), "twin_short");
            let text = addrs[short].text.clone();
            if let Some(t) = twin_of(&text, 1, 32, net, rng) {
                addrs.push(t);
                twins.push((short, addrs.len() - 1));
            }
            let v = rng.range(2, 16) as u8;
            let l = rng.range(2, 12) as usize;
            let short = add(&mut addrs, script_witness(v, &rng.bytes(l)), "twin_short");
            let text = addrs[short].text.clone();
            for _ in 0..8 {
                let nl = rng.range(l as u64 + 8, 40) as usize;
                if let Some(t) = twin_of(&text, v, nl, net, rng) {
                    addrs.push(t);
                    twins.push((short, addrs.len() - 1));
                    break;
                }
            }
        }
        let mut plain_scripts: Vec<(Vec<u8>, &'static str)> = vec![];
        // P2PK
        let mut s = vec![];
        let mut pk = rng.bytes(33);
        pk[0] = 0x02;
        push_data(&mut s, &pk);
        s.push(0xac);
        plain_scripts.push((s, "p2pk"));
        // bare multisig 1-of-2
        let mut s = vec![0x51];
        for _ in 0..2 {
            let mut pk = rng.bytes(33);
            pk[0] = 0x03;
            push_data(&mut s, &pk);
        }
        s.extend_from_slice(&[0x52, 0xae]);
        plain_scripts.push((s, "multisig"));
        // OP_RETURN
        let mut s = vec![0x6a];
        push_data(&mut s, &rng.bytes(20));
        plain_scripts.push((s, "op_return"));
        plain_scripts.push((vec![], "empty"));
        plain_scripts.push((vec![0x51], "op_true"));
        // non-standard gibberish (must not happen to be a witness program, which has an address)
        loop {
            let g = rng.bytes(40);
            if address_text(&g, net).is_none() {
                plain_scripts.push((g, "garbage"));
                break;
            }
        }
        // > 201 bytes ("large" bucket) and 10 kB
        let mut s = vec![0x51];
        s.extend(std::iter::repeat(0x61).take(300));
        plain_scripts.push((s, "large_script"));
        let mut s = vec![0x51];
        s.extend(std::iter::repeat(0x61).take(9_999));
        plain_scripts.push((s, "huge_script"));
        Universe {
            net,
            addrs,
            plain_scripts,
            twins,
        }
    }
}

/// A unique coinbase: height and a counter in the script-sig.
pub fn coinbase_tx(height: u32, uniq: u64, outputs: Vec<(u64, Vec<u8>)>) -> Transaction {
    let mut sig = vec![];
    push_data(&mut sig, &height.to_le_bytes());
    push_data(&mut sig, &uniq.to_le_bytes());
    Transaction {
        version: TxVersion::ONE,
        lock_time: LockTime::ZERO,
        input: vec![TxIn {
            previous_output: OutPoint::null(),
            script_sig: ScriptBuf::from_bytes(sig),
            sequence: Sequence::MAX,
            witness: Witness::new(),
        }],
        output: outputs
            .into_iter()
            .map(|(v, s)| TxOut {
                value: Amount::from_sat(v),
                script_pubkey: ScriptBuf::from_bytes(s),
            })
            .collect(),
    }
}

pub fn spend_tx(
    inputs: &[([u8; 32], u32)],
    outputs: Vec<(u64, Vec<u8>)>,
    witness_items: usize,
    sig_len: usize,
    rng: &mut Rng,
) -> Transaction {
    Transaction {
        version: TxVersion::TWO,
        lock_time: LockTime::ZERO,
        input: inputs
            .iter()
            .map(|(txid, vout)| {
                let mut w = Witness::new();
                for _ in 0..witness_items {
                    let n = rng.range(1, 72) as usize;
                    w.push(rng.bytes(n));
                }
                let mut sig = vec![];
                if sig_len > 0 {
                    push_data(&mut sig, &rng.bytes(sig_len.min(75)));
                }
                TxIn {
                    previous_output: OutPoint {
                        txid: bitcoin::Txid::from_byte_array(*txid),
                        vout: *vout,
                    },
                    script_sig: ScriptBuf::from_bytes(sig),
                    sequence: Sequence::MAX,
                    witness: w,
                }
            })
            .collect(),
        output: outputs
            .into_iter()
            .map(|(v, s)| TxOut {
                value: Amount::from_sat(v),
                script_pubkey: ScriptBuf::from_bytes(s),
            })
            .collect(),
    }
}

/// Builds a block; if `mine`, searches a nonce satisfying the declared target.
pub fn make_block(
    net: Network,
    prev: [u8; 32],
    time: u32,
    txs: Vec<Transaction>,
    mine: bool,
) -> Block {
    make_block_bits(pow_bits(net), prev, time, txs, mine)
}

pub fn make_block_bits(
    bits: u32,
    prev: [u8; 32],
    time: u32,
    txs: Vec<Transaction>,
    mine: bool,
) -> Block {
    let mut block = Block {
        header: Header {
            version: Version::from_consensus(0x2000_0000),
            prev_blockhash: BlockHash::from_byte_array(prev),
            merkle_root: TxMerkleNode::all_zeros(),
            time,
            bits: CompactTarget::from_consensus(bits),
            nonce: 0,
        },
        txdata: txs,
    };
    block.header.merkle_root = block
        .compute_merkle_root()
        .unwrap_or(TxMerkleNode::all_zeros());
    if mine {
        mine_header(&mut block.header);
    }
    block
}

pub fn mine_header(header: &mut Header) {
    let target = header.target();
    loop {
        if header.validate_pow(target).is_ok() {
            return;
        }
        header.nonce = header.nonce.wrapping_add(1);
    }
}

pub fn block_bytes(block: &Block) -> Vec<u8> {
    bitcoin::consensus::serialize(block)
}

pub fn header_bytes(header: &Header) -> Vec<u8> {
    bitcoin::consensus::serialize(header)
}

pub fn hash_of(block: &Block) -> [u8; 32] {
    block.block_hash().to_byte_array()
}

pub fn genesis(net: Network) -> Block {
    bitcoin::blockdata::constants::genesis_block(btc_network(net))
}

pub fn hex32(h: &[u8; 32]) -> String {
    // display order (reversed), like block explorers
    let mut b = *h;
    b.reverse();
    hex::encode(b)
}
