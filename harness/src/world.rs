//! Driver of the real canister code (native build, thread-local instance).
//! Every entry point is called at the client boundary under `catch_unwind`.

use crate::parse::H;
use ic_btc_canister as can;
use ic_btc_canister::runtime::GetSuccessorsReply;
use ic_btc_canister::types::{
    BlockHeaderBlob, GetSuccessorsCompleteResponse, GetSuccessorsPartialResponse,
    GetSuccessorsRequest, GetSuccessorsResponse, Slicing,
};
use ic_btc_interface::{
    Config, Fees, Flag, GetBalanceError, GetBalanceRequest, GetBlockHeadersError,
    GetBlockHeadersRequest, GetBlockHeadersResponse, GetCurrentFeePercentilesRequest,
    GetUtxosError, GetUtxosRequest, GetUtxosResponse, InitConfig, Network, NetworkInRequest,
    SetConfigRequest, UtxosFilterInRequest,
};
use std::cell::RefCell;
use std::future::Future;
use std::panic::{catch_unwind, AssertUnwindSafe};
use std::pin::Pin;
use std::task::{Context, Poll, RawWaker, RawWakerVTable, Waker};

thread_local! {
    static LAST_PANIC: RefCell<Option<String>> = const { RefCell::new(None) };
}

/// Installs a panic hook that records the message instead of printing it.
pub fn install_panic_hook() {
    std::panic::set_hook(Box::new(|info| {
        let msg = if let Some(s) = info.payload().downcast_ref::<&str>() {
            s.to_string()
        } else if let Some(s) = info.payload().downcast_ref::<String>() {
            s.clone()
        } else {
            "<non-string panic>".to_string()
        };
        let loc = info
            .location()
            .map(|l| format!(" @{}:{}", l.file(), l.line()))
            .unwrap_or_default();
        LAST_PANIC.with(|p| *p.borrow_mut() = Some(format!("{}{}", msg, loc)));
    }));
}

#[derive(Debug, Clone, PartialEq)]
pub enum Out<T> {
    Ok(T),
    Trap(String),
}

impl<T> Out<T> {
    pub fn is_trap(&self) -> bool {
        matches!(self, Out::Trap(_))
    }
    pub fn ok(self) -> Option<T> {
        match self {
            Out::Ok(v) => Some(v),
            Out::Trap(_) => None,
        }
    }
    pub fn trap_msg(&self) -> Option<&str> {
        match self {
            Out::Trap(m) => Some(m),
            _ => None,
        }
    }
}

pub fn guarded<T>(f: impl FnOnce() -> T) -> Out<T> {
    LAST_PANIC.with(|p| *p.borrow_mut() = None);
    match catch_unwind(AssertUnwindSafe(f)) {
        Ok(v) => Out::Ok(v),
        Err(_) => Out::Trap(
            LAST_PANIC
                .with(|p| p.borrow_mut().take())
                .unwrap_or_else(|| "<panic>".into()),
        ),
    }
}

fn noop_waker() -> Waker {
    fn clone(_: *const ()) -> RawWaker {
        RawWaker::new(std::ptr::null(), &VTABLE)
    }
    fn noop(_: *const ()) {}
    static VTABLE: RawWakerVTable = RawWakerVTable::new(clone, noop, noop, noop);
    unsafe { Waker::from_raw(RawWaker::new(std::ptr::null(), &VTABLE)) }
}

/// Polls a future once with a no-op waker.
pub fn poll_once<F: Future + ?Sized>(f: Pin<&mut F>) -> Poll<F::Output> {
    let w = noop_waker();
    let mut cx = Context::from_waker(&w);
    f.poll(&mut cx)
}

pub fn run_ready<F: Future>(f: F) -> F::Output {
    let mut f = Box::pin(f);
    match poll_once(f.as_mut()) {
        Poll::Ready(v) => v,
        Poll::Pending => panic!("future unexpectedly pending"),
    }
}

pub fn net_req(n: Network) -> NetworkInRequest {
    match n {
        Network::Mainnet => NetworkInRequest::Mainnet,
        Network::Testnet => NetworkInRequest::Testnet,
        Network::Regtest => NetworkInRequest::Regtest,
    }
}

pub fn net_req_lower(n: Network) -> NetworkInRequest {
    match n {
        Network::Mainnet => NetworkInRequest::mainnet,
        Network::Testnet => NetworkInRequest::testnet,
        Network::Regtest => NetworkInRequest::regtest,
    }
}

pub const MOCK_NOW_SECS: u64 = 1_800_000_000;

#[derive(Clone, Debug)]
pub struct WorldCfg {
    pub net: Network,
    pub threshold: u32,
    pub sync_gate: Flag,
    pub api_access: Flag,
    pub lazy_fees: Flag,
    pub fees: Option<Fees>,
    pub syncing: Flag,
}

impl WorldCfg {
    pub fn new(net: Network, threshold: u32) -> Self {
        WorldCfg {
            net,
            threshold,
            sync_gate: Flag::Disabled,
            api_access: Flag::Enabled,
            lazy_fees: Flag::Disabled,
            fees: Some(Fees::default()),
            syncing: Flag::Enabled,
        }
    }
}

/// Fresh canister: new stable memory + `init`.
/// A fresh, zeroed stable memory. It is pre-sized with `vec![0; n]` (calloc: untouched pages cost
/// nothing), because growing an empty vector bucket by bucket zero-fills 8 MiB per stable
/// structure explicitly and made a canister reset the dominant cost of every case.
fn fresh_memory() -> std::rc::Rc<std::cell::RefCell<Vec<u8>>> {
    std::rc::Rc::new(std::cell::RefCell::new(vec![0u8; 192 << 20]))
}

pub fn reset(cfg: &WorldCfg) {
    can::memory::set_memory(fresh_memory());
    can::runtime::mock_time::set_mock_time_secs(MOCK_NOW_SECS);
    can::runtime::verif::performance_counter_reset();
    can::runtime::verif::set_performance_counter_step(0);
    can::runtime::verif::set_cycles_available(None);
    can::runtime::verif::take_sent_transactions();
    can::verif_hooks::scheduler_enable(false);
    can::verif_hooks::reset();
    can::runtime::set_successors_responses(vec![]);
    can::init(InitConfig {
        stability_threshold: Some(cfg.threshold as u128),
        network: Some(cfg.net),
        blocks_source: None,
        syncing: Some(cfg.syncing),
        fees: cfg.fees.clone(),
        api_access: Some(cfg.api_access),
        disable_api_if_not_fully_synced: Some(cfg.sync_gate),
        watchdog_canister: None,
        burn_cycles: None,
        lazily_evaluate_fee_percentiles: Some(cfg.lazy_fees),
    });
}

/// Replaces the state by one with a custom genesis block (push path: mainnet/testnet,
/// where no proof of work can be mined).
pub fn reset_with_genesis(cfg: &WorldCfg, genesis: &bitcoin::Block, genesis_difficulty: u128) {
    reset(cfg);
    let mut b = ic_btc_types::Block::new(genesis.clone());
    b.mock_difficulty = Some(genesis_difficulty);
    let net = cfg.net;
    let thr = cfg.threshold;
    can::memory::set_memory(fresh_memory());
    can::with_state_mut(|s| {
        let mut ns = can::state::State::new(
            can::unstable_blocks::BlocksCacheInStableMem::new(
                net,
                can::memory::get_unstable_blocks_memory(),
            ),
            thr,
            net,
            b,
        );
        ns.api_access = s.api_access;
        ns.disable_api_if_not_fully_synced = s.disable_api_if_not_fully_synced;
        ns.lazily_evaluate_fee_percentiles = s.lazily_evaluate_fee_percentiles;
        ns.fees = s.fees.clone();
        ns.syncing_state.syncing = s.syncing_state.syncing;
        *s = ns;
    });
}

// ------------------------------------------------------------------ delivery

/// insert path: full validation, optional mock difficulty
pub fn insert_block(block: &bitcoin::Block, mock_difficulty: Option<u128>) -> Out<Result<(), String>> {
    let mut b = ic_btc_types::Block::new(block.clone());
    b.mock_difficulty = mock_difficulty;
    guarded(|| {
        can::with_state_mut(|s| can::state::insert_block(s, b).map_err(|e| format!("{:?}", e)))
    })
}

/// push path: below validation
pub fn push_block(block: &bitcoin::Block, mock_difficulty: Option<u128>) -> Out<Result<(), String>> {
    let mut b = ic_btc_types::Block::new(block.clone());
    b.mock_difficulty = mock_difficulty;
    guarded(|| {
        can::with_state_mut(|s| {
            can::unstable_blocks::push(&mut s.unstable_blocks, &s.utxos, b)
                .map_err(|e| format!("{:?}", e))
        })
    })
}

#[derive(Debug, Clone, Copy, PartialEq)]
pub enum Ingest {
    Paused,
    Done(bool),
}

pub fn ingest_stable() -> Out<Ingest> {
    guarded(|| {
        can::with_state_mut(|s| match can::state::ingest_stable_blocks_into_utxoset(s) {
            Slicing::Paused(()) => Ingest::Paused,
            Slicing::Done(b) => Ingest::Done(b),
        })
    })
}

/// A heartbeat run to completion (scheduler off: the yield point is a no-op).
pub fn heartbeat() -> Out<()> {
    guarded(|| run_ready(can::heartbeat()))
}

pub fn set_replies(replies: Vec<GetSuccessorsReply>) {
    can::runtime::set_successors_responses(replies);
}

pub fn reply_complete(blocks: Vec<Vec<u8>>, next: Vec<Vec<u8>>) -> GetSuccessorsReply {
    GetSuccessorsReply::Ok(GetSuccessorsResponse::Complete(complete(blocks, next)))
}

pub fn complete(blocks: Vec<Vec<u8>>, next: Vec<Vec<u8>>) -> GetSuccessorsCompleteResponse {
    // `next` is a candid `vec blob`: any byte string can arrive. BlockHeaderBlob::from asserts
    // the length, so arbitrary-length blobs are built through candid decoding, as on the wire.
    GetSuccessorsCompleteResponse {
        blocks,
        next: next.into_iter().map(header_blob).collect(),
    }
}

pub fn header_blob(bytes: Vec<u8>) -> BlockHeaderBlob {
    if bytes.len() == 80 {
        BlockHeaderBlob::from(bytes)
    } else {
        // what a candid decoder produces for a blob of another length
        let enc = candid::encode_one(serde_bytes::ByteBuf::from(bytes)).unwrap();
        candid::decode_one::<BlockHeaderBlob>(&enc).expect("candid decode of header blob")
    }
}

pub fn reply_partial(first: Vec<u8>, next: Vec<Vec<u8>>, remaining: u8) -> GetSuccessorsReply {
    GetSuccessorsReply::Ok(GetSuccessorsResponse::Partial(GetSuccessorsPartialResponse {
        partial_block: first,
        next: next.into_iter().map(header_blob).collect(),
        remaining_follow_ups: remaining,
    }))
}

pub fn reply_follow_up(bytes: Vec<u8>) -> GetSuccessorsReply {
    GetSuccessorsReply::Ok(GetSuccessorsResponse::FollowUp(bytes))
}

pub fn reply_reject() -> GetSuccessorsReply {
    GetSuccessorsReply::Err(ic_cdk::call::RejectCode::CanisterReject, "rejected".into())
}

// ------------------------------------------------------------------ internal observation points

pub fn stable_height() -> u32 {
    can::with_state(|s| s.stable_height())
}

pub fn is_ingesting() -> bool {
    can::with_state(|s| s.utxos.ingesting_block.is_some())
}

pub fn tree_hashes() -> Vec<H> {
    can::with_state(|s| {
        can::state::get_block_hashes(s)
            .iter()
            .map(|h| {
                let mut a = [0u8; 32];
                a.copy_from_slice(h.as_bytes());
                a
            })
            .collect()
    })
}

pub fn error_counters() -> (u64, u64, u64) {
    can::with_state(|s| {
        (
            s.syncing_state.num_get_successors_rejects,
            s.syncing_state.num_block_deserialize_errors,
            s.syncing_state.num_insert_block_errors,
        )
    })
}

pub fn send_tx_count() -> u64 {
    can::with_state(|s| s.metrics.send_transaction_count)
}

pub fn bookkeeping() -> can::unstable_blocks::VerifBookkeeping {
    can::with_state(|s| s.unstable_blocks.verif_bookkeeping())
}

pub fn requests_seen() -> Vec<GetSuccessorsRequest> {
    can::verif_hooks::requests()
}

// ------------------------------------------------------------------ endpoints (client boundary)

pub fn get_config() -> Out<Config> {
    guarded(can::get_config)
}

pub fn set_config(req: SetConfigRequest) -> Out<()> {
    guarded(|| can::set_config(req))
}

pub fn info() -> Out<ic_btc_interface::BlockchainInfo> {
    guarded(can::get_blockchain_info)
}

#[derive(Clone, Debug, PartialEq)]
pub enum Filter {
    None,
    MinConf(u32),
    Page(Vec<u8>),
}

fn utxo_req(addr: &str, net: Network, f: &Filter) -> GetUtxosRequest {
    GetUtxosRequest {
        address: addr.to_string(),
        network: net_req(net),
        filter: match f {
            Filter::None => None,
            Filter::MinConf(c) => Some(UtxosFilterInRequest::MinConfirmations(*c)),
            Filter::Page(p) => Some(UtxosFilterInRequest::Page(serde_bytes::ByteBuf::from(
                p.clone(),
            ))),
        },
    }
}

pub type UtxosRes = Out<Result<GetUtxosResponse, GetUtxosError>>;

pub fn get_utxos_query(addr: &str, net: Network, f: &Filter) -> UtxosRes {
    let r = utxo_req(addr, net, f);
    guarded(|| can::get_utxos_query(r))
}

pub fn get_utxos_update(addr: &str, net: Network, f: &Filter) -> UtxosRes {
    let r = utxo_req(addr, net, f);
    guarded(|| can::get_utxos(r))
}

pub fn get_utxos_limit(addr: &str, net: Network, f: &Filter, limit: usize) -> UtxosRes {
    let r = utxo_req(addr, net, f);
    guarded(|| can::verif_hooks::get_utxos_query_with_limit(r, limit))
}

pub type BalRes = Out<Result<u64, GetBalanceError>>;

pub fn get_balance_query(addr: &str, net: Network, c: Option<u32>) -> BalRes {
    let r = GetBalanceRequest {
        address: addr.to_string(),
        network: net_req(net),
        min_confirmations: c,
    };
    guarded(|| can::get_balance_query(r))
}

pub fn get_balance_update(addr: &str, net: Network, c: Option<u32>) -> BalRes {
    let r = GetBalanceRequest {
        address: addr.to_string(),
        network: net_req(net),
        min_confirmations: c,
    };
    guarded(|| can::get_balance(r))
}

pub type HdrRes = Out<Result<GetBlockHeadersResponse, GetBlockHeadersError>>;

pub fn get_block_headers(start: u32, end: Option<u32>, net: Network) -> HdrRes {
    let r = GetBlockHeadersRequest {
        start_height: start,
        end_height: end,
        network: net_req(net),
    };
    guarded(|| can::get_block_headers(r))
}

pub fn fee_percentiles(net: Network) -> Out<Vec<u64>> {
    let r = GetCurrentFeePercentilesRequest {
        network: net_req(net),
    };
    guarded(|| can::get_current_fee_percentiles(r))
}

pub fn send_transaction(
    tx: Vec<u8>,
    net: Network,
) -> Out<Result<(), ic_btc_interface::SendTransactionError>> {
    let r = ic_btc_interface::SendTransactionRequest {
        transaction: tx,
        network: net_req(net),
    };
    guarded(|| run_ready(can::send_transaction(r)))
}

pub fn upgrade(arg: Option<SetConfigRequest>) -> Out<()> {
    guarded(|| {
        can::pre_upgrade();
        can::post_upgrade(arg);
    })
}

/// Follows next_page until exhausted. Returns (first response, all utxos, number of pages) or the error.
pub fn all_pages(
    addr: &str,
    net: Network,
    first: &Filter,
    limit: Option<usize>,
) -> Out<Result<(GetUtxosResponse, Vec<ic_btc_interface::Utxo>, usize, bool), GetUtxosError>> {
    let call = |f: &Filter| match limit {
        Some(l) => get_utxos_limit(addr, net, f, l),
        None => get_utxos_query(addr, net, f),
    };
    let first_res = match call(first) {
        Out::Trap(m) => return Out::Trap(m),
        Out::Ok(Err(e)) => return Out::Ok(Err(e)),
        Out::Ok(Ok(r)) => r,
    };
    let mut all = first_res.utxos.clone();
    let mut pages = 1;
    let mut same_tip = true;
    let mut next = first_res.next_page.clone();
    while let Some(p) = next {
        if pages > 100_000 {
            return Out::Trap("pagination does not terminate".into());
        }
        match call(&Filter::Page(p.to_vec())) {
            Out::Trap(m) => return Out::Trap(m),
            Out::Ok(Err(e)) => return Out::Ok(Err(e)),
            Out::Ok(Ok(r)) => {
                if r.tip_block_hash != first_res.tip_block_hash
                    || r.tip_height != first_res.tip_height
                {
                    same_tip = false;
                }
                all.extend(r.utxos.iter().cloned());
                next = r.next_page.clone();
                pages += 1;
            }
        }
    }
    Out::Ok(Ok((first_res, all, pages, same_tip)))
}

pub fn h32(v: &[u8]) -> Option<H> {
    if v.len() != 32 {
        return None;
    }
    let mut a = [0u8; 32];
    a.copy_from_slice(v);
    Some(a)
}
