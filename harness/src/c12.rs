//! C12 — only structurally sound blocks pass (coinbase first, merkle root, no duplicate txids).

use crate::cov::{Ctx, Tier};
use crate::gen;
use crate::parse::{self, H};
use crate::rng::{fp_str, Rng};
use crate::world::{self, Out};
use bitcoin::blockdata::block::Header;
use bitcoin::hashes::Hash;
use bitcoin::{Block, Transaction};
use ic_btc_interface::Network;
use ic_btc_validation::{BlockValidator, HeaderStore};
use serde_json::json;
use std::time::Duration;

struct GenesisStore {
    genesis: Header,
}

impl HeaderStore for GenesisStore {
    fn get_with_block_hash(&self, hash: &bitcoin::BlockHash) -> Option<Header> {
        if *hash == self.genesis.block_hash() {
            Some(self.genesis)
        } else {
            None
        }
    }
    fn get_with_height(&self, height: u32) -> Option<Header> {
        if height == 0 {
            Some(self.genesis)
        } else {
            None
        }
    }
    fn height(&self) -> u32 {
        0
    }
}

/// Reference verdict, from the serialised bytes only.
pub fn reference_verdict(bytes: &[u8]) -> Result<(), &'static str> {
    let pb = parse::parse_block(bytes).map_err(|_| "undecodable")?;
    if pb.txs.is_empty() {
        return Err("no transactions");
    }
    if !pb.txs[0].is_coinbase() {
        return Err("first transaction is not a coinbase");
    }
    let ids: Vec<H> = pb.txs.iter().map(|t| t.txid).collect();
    if parse::merkle_root(&ids) != Some(pb.merkle_root) {
        return Err("merkle root mismatch");
    }
    let mut s = ids.clone();
    s.sort();
    s.dedup();
    if s.len() != ids.len() {
        return Err("two transactions share an id");
    }
    Ok(())
}

/// A valid regtest block on genesis with `n` transactions (coinbase, one fan-out spending the
/// genesis coinbase, then spends of the fan-out outputs), so that it is transaction-valid too.
pub fn valid_block(n: usize, rng: &mut Rng, witness: bool) -> Block {
    let g = gen::genesis(Network::Regtest);
    let gcb = g.txdata[0].compute_txid().to_byte_array();
    let script = gen::script_p2pkh(&rng.bytes(20));
    let mut txs: Vec<Transaction> = vec![gen::coinbase_tx(1, rng.next_u64(), vec![(50_0000_0000, script.clone())])];
    if n >= 2 {
        let outs: Vec<(u64, Vec<u8>)> = (0..(n - 2).max(1)).map(|_| (1_000_000, gen::script_p2pkh(&rng.bytes(20)))).collect();
        let fan = gen::spend_tx(&[(gcb, 0)], outs, 0, 20, rng);
        let fid = fan.compute_txid().to_byte_array();
        txs.push(fan);
        for i in 0..n.saturating_sub(2) {
            let w = if witness && rng.chance(1, 2) { 2 } else { 0 };
            txs.push(gen::spend_tx(&[(fid, i as u32)], vec![(900_000, gen::script_witness(0, &rng.bytes(20)))], w, if w == 0 { 30 } else { 0 }, rng));
        }
    }
    let time = g.header.time + 1 + rng.range(0, 500) as u32;
    gen::make_block(Network::Regtest, gen::hash_of(&g), time, txs, true)
}

#[derive(Debug, Clone)]
pub struct Mutant {
    pub family: &'static str,
    pub block: Block,
    /// whether the mutation is meant to keep the merkle root equal to the header's
    pub keeps_root: Option<bool>,
}

fn remine(mut b: Block) -> Block {
    gen::mine_header(&mut b.header);
    b
}

/// All mutants of a valid block in the families of the statement.
pub fn mutants(valid: &Block, rng: &mut Rng) -> Vec<Mutant> {
    let mut out = vec![];
    let n = valid.txdata.len();
    // 1. merkle-preserving duplications (CVE-2012-2459): at level l (group size g = 2^l), if the
    //    number of groups is odd, repeating the trailing group keeps the root. Compositions follow
    //    by applying the rule again to the result.
    let mut frontier: Vec<Vec<Transaction>> = vec![valid.txdata.clone()];
    let mut seen: Vec<usize> = vec![n];
    for _round in 0..3 {
        let mut next = vec![];
        for txs in frontier.iter() {
            let len = txs.len();
            let mut g = 1;
            while g <= len {
                {
                    // duplicate the trailing group of size g: keeps the root iff the list consists of
                    // an odd number (> 1) of full groups of that size
                    if len % g == 0 && (len / g) % 2 == 1 && len / g > 1 {
                        let mut t = txs.clone();
                        let tail: Vec<Transaction> = txs[len - g..].to_vec();
                        t.extend(tail);
                        if t.len() <= 4 * n + 4 && !seen.contains(&t.len()) {
                            seen.push(t.len());
                            next.push(t.clone());
                        }
                        let mut b = valid.clone();
                        b.txdata = t;
                        out.push(Mutant { family: "merkle_preserving_duplication", block: b, keeps_root: Some(true) });
                    }
                }
                g *= 2;
            }
        }
        frontier = next;
        if frontier.is_empty() {
            break;
        }
    }
    // 2. adjacent swaps (header untouched -> root mismatch), and with root recomputed + re-mined
    for i in 0..n.saturating_sub(1) {
        let mut b = valid.clone();
        b.txdata.swap(i, i + 1);
        out.push(Mutant { family: "adjacent_swap_stale_root", block: b.clone(), keeps_root: Some(false) });
        if n <= 12 || rng.chance(1, 4) {
            b.header.merkle_root = b.compute_merkle_root().unwrap();
            out.push(Mutant { family: "adjacent_swap_fresh_root", block: remine(b), keeps_root: None });
        }
    }
    // 3. single removals
    for i in 0..n {
        let mut b = valid.clone();
        b.txdata.remove(i);
        out.push(Mutant { family: "removal_stale_root", block: b.clone(), keeps_root: if n == 1 { None } else { Some(false) } });
        if !b.txdata.is_empty() && (n <= 12 || rng.chance(1, 4)) {
            b.header.merkle_root = b.compute_merkle_root().unwrap();
            out.push(Mutant { family: "removal_fresh_root", block: remine(b), keeps_root: None });
        }
    }
    // 4. coinbase moved / duplicated / absent, with a fresh root so that only the structure rule can object
    if n >= 2 {
        let mut b = valid.clone();
        let cb = b.txdata.remove(0);
        b.txdata.push(cb);
        b.header.merkle_root = b.compute_merkle_root().unwrap();
        out.push(Mutant { family: "coinbase_moved_last", block: remine(b), keeps_root: None });
    }
    {
        let mut b = valid.clone();
        let cb = b.txdata[0].clone();
        b.txdata.insert(1.min(b.txdata.len()), cb);
        b.header.merkle_root = b.compute_merkle_root().unwrap();
        out.push(Mutant { family: "coinbase_duplicated", block: remine(b), keeps_root: None });
    }
    // 5. a repeated non-coinbase transaction with a fresh root
    if n >= 2 {
        let mut b = valid.clone();
        let t = b.txdata[n - 1].clone();
        b.txdata.insert(1, t);
        b.header.merkle_root = b.compute_merkle_root().unwrap();
        out.push(Mutant { family: "repeated_tx_fresh_root", block: remine(b), keeps_root: None });
    }
    // 6. header root replaced by garbage
    {
        let mut b = valid.clone();
        let mut r = [0u8; 32];
        r.copy_from_slice(&rng.bytes(32));
        b.header.merkle_root = bitcoin::TxMerkleNode::from_byte_array(r);
        out.push(Mutant { family: "header_root_replaced", block: remine(b), keeps_root: Some(false) });
    }
    // 7. no transactions at all
    {
        let mut b = valid.clone();
        b.txdata.clear();
        out.push(Mutant { family: "no_transactions", block: b, keeps_root: None });
    }
    out
}

pub fn lane_structure(ctx: &mut Ctx) {
    let max_n: u64 = if ctx.tier == Tier::Quick { 40 } else { 40 };
    let rounds: u64 = if ctx.tier == Tier::Quick { 60 } else { 2000 };
    let g = gen::genesis(Network::Regtest);
    let now = Duration::from_secs(world::MOCK_NOW_SECS);
    let mut complete = true;
    for k in ctx.cases("structure", max_n * rounds) {
        if !ctx.time_left() {
            complete = false;
            break;
        }
        ctx.begin("structure", k);
        let n = (k % max_n) as usize + 1;
        let mut rng = Rng::derive(&[ctx.seed, fp_str("structure"), k]);
        let witness = (k / max_n) % 2 == 1;
        let valid = valid_block(n, &mut rng, witness);
        let validator = BlockValidator::new(GenesisStore { genesis: g.header }, bitcoin::Network::Regtest);
        ctx.cov.count("c12_valid_blocks");
        // every valid block is accepted
        let vb = gen::block_bytes(&valid);
        if reference_verdict(&vb).is_err() {
            panic!("generator produced a structurally invalid 'valid' block");
        }
        let r = world::guarded(|| validator.validate_block(&valid, now));
        ctx.cov.eval(Some(fp_str(&format!("valid|{}|{}", n, witness))));
        match r {
            Out::Ok(Ok(())) => {}
            other => ctx.violation(
                format!("a valid block with {} transactions was rejected: {:?}", n, other),
                None,
                json!({"block": hex::encode(&vb[..vb.len().min(400)])}),
            ),
        }
        for m in mutants(&valid, &mut rng) {
            let bytes = gen::block_bytes(&m.block);
            let want = reference_verdict(&bytes);
            // the generator asserts its own intent, so that a generator bug cannot fake coverage
            if let Some(keep) = m.keeps_root {
                let pb = parse::parse_block(&bytes).unwrap();
                let ids: Vec<H> = pb.txs.iter().map(|t| t.txid).collect();
                let same = parse::merkle_root(&ids) == Some(pb.merkle_root);
                if same != keep && !pb.txs.is_empty() {
                    panic!("mutation family {} did not {} the merkle root", m.family, if keep { "preserve" } else { "change" });
                }
            }
            let got = world::guarded(|| validator.validate_block(&m.block, now));
            ctx.cov.count(&format!("c12_mutants_{}", m.family));
            ctx.cov.eval(Some(fp_str(&format!("{}|{}|{}|{}", m.family, n, m.block.txdata.len(), witness))));
            match (&want, &got) {
                (_, Out::Trap(msg)) => ctx.violation(format!("block validation trapped on a {} mutant: {}", m.family, msg), None, json!({"n": n})),
                (Ok(()), Out::Ok(Ok(()))) => {
                    ctx.cov.count("c12_mutants_that_are_valid_and_accepted");
                }
                (Err(_), Out::Ok(Err(_))) => {
                    if m.family == "merkle_preserving_duplication" {
                        ctx.cov.count("c12_root_preserving_mutants_rejected");
                    }
                }
                (Err(why), Out::Ok(Ok(()))) => ctx.violation(
                    format!("accepted a block that is not structurally sound ({} mutant of a {}-transaction block, now {} transactions): {}",
                        m.family, n, m.block.txdata.len(), why),
                    None,
                    json!({"family": m.family, "n": n, "txs_now": m.block.txdata.len()}),
                ),
                (Ok(()), Out::Ok(Err(e))) => ctx.violation(
                    format!("rejected a structurally sound block ({} mutant of a {}-transaction block): {:?}", m.family, n, e),
                    None,
                    json!({"family": m.family, "n": n}),
                ),
            }
        }
        if ctx.cov.samples.len() < 3 {
            ctx.cov.sample(json!({"transactions": n, "witness_txs": witness, "block_hash": gen::hex32(&gen::hash_of(&valid))}));
        }
    }
    let _ = complete;
}

/// The same families through the canister's insert path (state::insert_block), on a sample.
pub fn lane_structure_canister(ctx: &mut Ctx) {
    let cases = if ctx.tier == Tier::Quick { 4000 } else { 400_000 };
    for k in ctx.cases("structure_can", cases) {
        if !ctx.time_left() {
            break;
        }
        ctx.begin("structure_can", k);
        let mut rng = Rng::derive(&[ctx.seed, fp_str("structure_can"), k]);
        let n = rng.range(1, 24) as usize;
        let w = rng.chance(1, 2);
        let valid = valid_block(n, &mut rng, w);
        world::reset(&world::WorldCfg::new(Network::Regtest, 100));
        // half of the cases: the (valid) header was announced earlier by the block source, the way
        // a response's `next` list does; the bodies offered afterwards must be judged all the same
        if rng.chance(1, 2) {
            let hdr = gen::block_bytes(&valid)[..80].to_vec();
            world::set_replies(vec![world::reply_complete(vec![], vec![hdr])]);
            for _ in 0..2 {
                let _ = world::heartbeat();
            }
            let want_hash = gen::hash_of(&valid);
            if world::bookkeeping().next_by_hash.iter().any(|(b, _, _)| b.to_vec() == want_hash.to_vec()) {
                ctx.cov.count("c12_cases_with_header_announced_first");
            } else {
                ctx.inconclusive("the header announced through `next` was not recorded".into());
            }
        }
        for m in mutants(&valid, &mut rng).into_iter().chain(std::iter::once(Mutant { family: "valid", block: valid.clone(), keeps_root: None })) {
            let bytes = gen::block_bytes(&m.block);
            let want = reference_verdict(&bytes);
            // domain: blocks reaching the tree are transaction-valid (every input exists unspent on
            // the block's own chain); a fresh-root reordering or removal can break that
            if want.is_ok() && !tx_valid_on_genesis(&bytes) {
                ctx.cov.count("c12_mutants_outside_domain_skipped");
                continue;
            }
            let before = world::tree_hashes().len();
            let got = world::insert_block(&m.block, None);
            ctx.cov.count("c12_insert_block_calls");
            ctx.cov.eval(Some(fp_str(&format!("can|{}|{}|{}", m.family, n, m.block.txdata.len()))));
            let after = world::tree_hashes().len();
            match (&want, &got) {
                (_, Out::Trap(msg)) => {
                    ctx.violation(format!("insert_block trapped on a {} mutant: {}", m.family, msg), None, json!({"n": n}));
                    break;
                }
                (Ok(()), Out::Ok(Ok(()))) => {
                    if after != before + 1 {
                        ctx.violation("accepted block not in the tree".into(), None, json!({}));
                    }
                }
                (Err(_), Out::Ok(Err(_))) => {
                    if after != before {
                        ctx.violation("rejected block changed the tree".into(), None, json!({}));
                    }
                }
                (Err(why), Out::Ok(Ok(()))) => ctx.violation(
                    format!("the canister admitted a block that is not structurally sound ({}, {} txs): {}", m.family, m.block.txdata.len(), why),
                    None,
                    json!({"family": m.family}),
                ),
                (Ok(()), Out::Ok(Err(e))) => {
                    // a fresh-root reordering may put a spend before its funding transaction: that
                    // is outside the domain (not transaction-valid), not a structural verdict
                    if e.contains("AlreadyKnown") {
                        continue;
                    }
                    ctx.violation(format!("the canister refused a structurally sound block ({}): {}", m.family, e), None, json!({"family": m.family}));
                }
            }
        }
    }
}

fn tx_valid_on_genesis(bytes: &[u8]) -> bool {
    let Ok(pb) = parse::parse_block(bytes) else { return false };
    let g = gen::genesis(Network::Regtest);
    let gcb = g.txdata[0].compute_txid().to_byte_array();
    let mut avail: std::collections::BTreeSet<(H, u32)> = Default::default();
    avail.insert((gcb, 0));
    for tx in pb.txs.iter() {
        if !tx.is_coinbase() {
            for i in tx.inputs.iter() {
                if !avail.remove(i) {
                    return false;
                }
            }
        }
        for (v, _) in tx.outputs.iter().enumerate() {
            avail.insert((tx.txid, v as u32));
        }
    }
    true
}
