//! C10 — a block is admitted iff it is new, connected and valid; rejects are atomic;
//! arbitrary bytes never trap the heartbeat.

use crate::cov::{Ctx, Tier};
use crate::gen;
use crate::hist::{Hist, HistCfg, Palette, Path};
use crate::mon;
use crate::parse::{self, H};
use crate::rng::{fp_str, Rng};
use crate::world::{self, Out};
use ic_btc_canister as can;
use ic_btc_interface::Network;
use serde_json::json;

fn short(h: &H) -> String {
    gen::hex32(h)[..8].to_string()
}

#[derive(Debug, Clone, Copy, PartialEq)]
enum Bad {
    RandomBytes,
    Empty,
    Truncated,
    TrailingBytes,
    DuplicateUnstable,
    DuplicateAnchor,
    DuplicateStable,
    Orphan,
    ChildOfStable,
    FutureTime,
    OldTime,
    WrongBitsHarder,
    BitsAboveLimit,
    BadPow,
    BadMerkle,
    NoCoinbase,
    NoTransactions,
    DuplicatedTx,
}

const ALL_BAD: [Bad; 18] = [
    Bad::RandomBytes,
    Bad::Empty,
    Bad::Truncated,
    Bad::TrailingBytes,
    Bad::DuplicateUnstable,
    Bad::DuplicateAnchor,
    Bad::DuplicateStable,
    Bad::Orphan,
    Bad::ChildOfStable,
    Bad::FutureTime,
    Bad::OldTime,
    Bad::WrongBitsHarder,
    Bad::BitsAboveLimit,
    Bad::BadPow,
    Bad::BadMerkle,
    Bad::NoCoinbase,
    Bad::NoTransactions,
    Bad::DuplicatedTx,
];

/// verdict by construction: Some(true) must be admitted, Some(false) must be refused, None ambiguous
fn expected(b: Bad) -> Option<bool> {
    match b {
        Bad::TrailingBytes => None,
        _ => Some(false),
    }
}

fn cfg_for(rng: &mut Rng) -> HistCfg {
    HistCfg {
        net: Network::Regtest,
        path: Path::Heartbeat,
        threshold: rng.range(2, 6) as u32,
        n_each: 1,
        max_txs: 3,
        fork_pct: 25,
        palette: Palette::One,
        fanout_pct: 10,
        share_pct: 10,
        lazy_fees: true,
        sync_gate: false,
        ingest_pct: 100,
        fee_txs: true,
    }
}

/// Builds the bytes of a bad element of the given class against the current state.
fn bad_element(h: &mut Hist, class: Bad) -> Option<Vec<u8>> {
    let best_tip = *h.model.best_chains()[0].last().unwrap();
    let fresh = |h: &mut Hist| -> bitcoin::Block { h.gen_block(&best_tip) };
    Some(match class {
        Bad::RandomBytes => {
            let n = h.rng.range(1, 300) as usize;
            h.rng.bytes(n)
        }
        Bad::Empty => vec![],
        Bad::Truncated => {
            let b = gen::block_bytes(&fresh(h));
            let cut = match h.rng.below(4) {
                0 => h.rng.range(1, 79) as usize,
                1 => 80,
                2 => 81.min(b.len() - 1),
                _ => h.rng.range(82, b.len() as u64 - 1) as usize,
            };
            b[..cut.min(b.len() - 1)].to_vec()
        }
        Bad::TrailingBytes => {
            let mut b = gen::block_bytes(&fresh(h));
            let n = h.rng.range(1, 9) as usize;
            b.extend(h.rng.bytes(n));
            b
        }
        Bad::DuplicateUnstable => {
            let live = h.model.live_preorder();
            if live.len() < 2 {
                return None;
            }
            let i = 1 + h.rng.usize_below(live.len() - 1);
            gen::block_bytes(&h.raw[&live[i]])
        }
        Bad::DuplicateAnchor => {
            if h.model.stable_height() == 0 {
                return None; // the genesis block is never delivered
            }
            gen::block_bytes(&h.raw[&h.model.anchor])
        }
        Bad::DuplicateStable => {
            if h.model.stable_chain.len() < 2 {
                return None;
            }
            let i = 1 + h.rng.usize_below(h.model.stable_chain.len() - 1);
            gen::block_bytes(&h.raw[&h.model.stable_chain[i]])
        }
        Bad::Orphan => {
            // a valid block on a block the canister has never seen
            let hidden = fresh(h);
            let hh = gen::hash_of(&hidden);
            let cb = gen::coinbase_tx(h.model.blocks[&best_tip].height + 2, h.rng.next_u64(), vec![(1000, h.uni.addrs[0].script.clone())]);
            let b = gen::make_block(Network::Regtest, hh, hidden.header.time + 10, vec![cb], true);
            gen::block_bytes(&b)
        }
        Bad::ChildOfStable => {
            if h.model.stable_chain.is_empty() {
                return None;
            }
            let p = *h.rng.pick(&h.model.stable_chain);
            let pt = h.model.blocks[&p].time;
            let ph = h.model.blocks[&p].height;
            let cb = gen::coinbase_tx(ph + 1, h.rng.next_u64(), vec![(1000, h.uni.addrs[0].script.clone())]);
            gen::block_bytes(&gen::make_block(Network::Regtest, p, pt + 5000, vec![cb], true))
        }
        Bad::FutureTime => {
            let mut b = fresh(h);
            b.header.time = (h.now + 2 * 3600 + 1 + h.rng.range(0, 1000)) as u32;
            gen::mine_header(&mut b.header);
            gen::block_bytes(&b)
        }
        Bad::OldTime => {
            // time <= median of the last up to 11 ancestors
            let mut b = fresh(h);
            let path = {
                let mut v = h.model.stable_chain.clone();
                v.extend(h.model.path_from_anchor(&best_tip));
                v
            };
            let mut times: Vec<u32> = path.iter().rev().take(11).map(|x| h.model.blocks[x].time).collect();
            times.sort();
            let median = times[times.len() / 2];
            b.header.time = median - h.rng.range(0, 3).min(median as u64) as u32;
            gen::mine_header(&mut b.header);
            gen::block_bytes(&b)
        }
        Bad::WrongBitsHarder => {
            let mut b = fresh(h);
            b.header.bits = bitcoin::CompactTarget::from_consensus(0x2000ffff);
            gen::mine_header(&mut b.header);
            gen::block_bytes(&b)
        }
        Bad::BitsAboveLimit => {
            let mut b = fresh(h);
            b.header.bits = bitcoin::CompactTarget::from_consensus(0x2100ffff);
            gen::mine_header(&mut b.header);
            gen::block_bytes(&b)
        }
        Bad::BadPow => {
            let mut b = fresh(h);
            let t = b.header.target();
            loop {
                if b.header.validate_pow(t).is_err() {
                    break;
                }
                b.header.nonce = b.header.nonce.wrapping_add(1);
            }
            gen::block_bytes(&b)
        }
        Bad::BadMerkle => {
            let mut b = fresh(h);
            let mut r = [0u8; 32];
            r.copy_from_slice(&h.rng.bytes(32));
            use bitcoin::hashes::Hash;
            b.header.merkle_root = bitcoin::TxMerkleNode::from_byte_array(r);
            gen::mine_header(&mut b.header);
            gen::block_bytes(&b)
        }
        Bad::NoCoinbase => {
            let mut b = fresh(h);
            if b.txdata.len() < 2 {
                // make the first transaction a non-coinbase by giving it a real-looking input
                let t = gen::spend_tx(&[([7u8; 32], 0)], vec![(1, h.uni.addrs[0].script.clone())], 0, 10, &mut h.rng);
                b.txdata = vec![t];
            } else {
                b.txdata.remove(0);
            }
            b.header.merkle_root = b.compute_merkle_root().unwrap();
            gen::mine_header(&mut b.header);
            gen::block_bytes(&b)
        }
        Bad::NoTransactions => {
            let mut b = fresh(h);
            b.txdata.clear();
            gen::mine_header(&mut b.header);
            gen::block_bytes(&b)
        }
        Bad::DuplicatedTx => {
            // merkle-preserving duplication: odd number of transactions, repeat the last one
            let mut b = fresh(h);
            if b.txdata.len() % 2 == 0 {
                let extra = gen::coinbase_tx(9999, h.rng.next_u64(), vec![(1, h.uni.addrs[0].script.clone())]);
                // a second coinbase-shaped tx would itself be refused; use a plain spend of our own coinbase instead
                let _ = extra;
                use bitcoin::hashes::Hash;
                let cbid = b.txdata[0].compute_txid().to_byte_array();
                let t = gen::spend_tx(&[(cbid, 0)], vec![(0, h.uni.addrs[0].script.clone())], 0, 12, &mut h.rng);
                b.txdata.push(t);
                b.header.merkle_root = b.compute_merkle_root().unwrap();
                gen::mine_header(&mut b.header);
            }
            if b.txdata.len() == 1 {
                return None;
            }
            let last = b.txdata.last().unwrap().clone();
            b.txdata.push(last);
            assert_eq!(b.compute_merkle_root().unwrap(), b.header.merkle_root);
            gen::block_bytes(&b)
        }
    })
}

fn garbage_headers(h: &mut Hist) -> Vec<Vec<u8>> {
    let mut v = vec![];
    // valid announced headers: chained, on forks, on top of earlier announced ones (which may have
    // gone stale in the meantime)
    if h.rng.chance(4, 5) {
        let n = h.rng.range(1, 4) as usize;
        v.extend(h.hidden_header_chain(n));
    }
    let n = h.rng.range(0, 4);
    for _ in 0..n {
        v.push(match h.rng.below(6) {
            0 => {
                let n = h.rng.range(0, 79) as usize;
                h.rng.bytes(n)
            }
            1 => {
                let n = h.rng.range(81, 200) as usize;
                h.rng.bytes(n)
            }
            2 => h.rng.bytes(80),
            3 => {
                // header of a block already in the tree
                let live = h.model.live_preorder();
                h.model.blocks[h.rng.pick(&live)].header.clone()
            }
            4 => {
                // valid-looking header that is not connected
                let mut x = h.model.blocks[&h.model.anchor].header.clone();
                x[4..36].copy_from_slice(&h.rng.bytes(32));
                x
            }
            _ => {
                // header with a timestamp far in the future on the best tip
                let tip = *h.model.best_chains()[0].last().unwrap();
                let mut b = h.gen_block(&tip);
                b.header.time = u32::MAX - 5;
                gen::mine_header(&mut b.header);
                gen::header_bytes(&b.header)
            }
        });
    }
    v
}

const HEADER_CLASSES: [Bad; 7] = [Bad::FutureTime, Bad::OldTime, Bad::WrongBitsHarder, Bad::BitsAboveLimit, Bad::BadPow, Bad::Orphan, Bad::ChildOfStable];

/// C11 end-to-end: only the header-rule classes, through the canister on regtest.
pub fn lane_admit_headers(ctx: &mut Ctx) {
    lane_admit_with(ctx, &HEADER_CLASSES, "admit_headers");
}

pub fn lane_admit(ctx: &mut Ctx) {
    lane_admit_with(ctx, &ALL_BAD, "admit");
}

fn lane_admit_with(ctx: &mut Ctx, classes: &[Bad], lane: &str) {
    let max_cases = if ctx.tier == Tier::Quick { 100_000 } else { 10_000_000 };
    for k in ctx.cases(lane, max_cases) {
        if !ctx.time_left() {
            break;
        }
        ctx.begin(lane, k);
        let mut rng = Rng::derive(&[ctx.seed, fp_str(lane), k]);
        let cfg = cfg_for(&mut rng);
        let mut h = Hist::new(cfg, rng);
        let warm = h.rng.range(3, 12);
        for _ in 0..warm {
            if !h.step(ctx) {
                break;
            }
        }
        let experiments = if ctx.tier == Tier::Quick { 8 } else { 30 };
        for e in 0..experiments {
            if h.desync.is_some() || !ctx.time_left() {
                break;
            }
            if e % 3 == 2 {
                valid_response(&mut h, ctx);
                continue;
            }
            let class = classes[((k as usize) * 7 + e as usize * 5 + h.rng.usize_below(3)) % classes.len()];
            experiment(&mut h, ctx, class);
        }
        // a run of valid responses with announced headers while the chain keeps growing
        for _ in 0..experiments {
            if h.desync.is_some() || !ctx.time_left() {
                break;
            }
            valid_response(&mut h, ctx);
        }
        if let Some(d) = &h.desync {
            if ctx.cov.violations.iter().all(|v| v.case != k) {
                ctx.inconclusive(format!("history abandoned: {}", d));
            }
        }
    }
}

fn experiment(h: &mut Hist, ctx: &mut Ctx, class: Bad) {
    let n_before = h.rng.range(0, 3) as usize;
    let n_after = h.rng.range(0, 2) as usize;
    // prefix: valid blocks, each valid at its processing time
    let mut elements: Vec<Vec<u8>> = vec![];
    let mut prefix: Vec<(bitcoin::Block, H)> = vec![];
    let model_live_before = h.model.live_preorder();
    // the class must be constructible in this state (before the model is touched)
    if matches!(class, Bad::DuplicateUnstable) && h.model.live_count() < 2
        || matches!(class, Bad::DuplicateAnchor) && h.model.stable_height() == 0
        || matches!(class, Bad::DuplicateStable) && h.model.stable_chain.len() < 2
        || matches!(class, Bad::ChildOfStable) && h.model.stable_chain.is_empty()
    {
        return;
    }
    for _ in 0..n_before {
        let parent = h.pick_parent();
        let b = h.gen_block(&parent);
        let bytes = gen::block_bytes(&b);
        let pb = parse::parse_block(&bytes).unwrap();
        h.model.accept(&pb, 1);
        h.raw.insert(pb.hash, b.clone());
        h.log.push(format!("block {} on {} (response prefix)", short(&pb.hash), short(&pb.prev)));
        prefix.push((b, pb.hash));
        elements.push(bytes);
    }
    // suffix: valid blocks that must be dropped together with the bad one. They are generated
    // BEFORE the bad element: generating a block can move the harness clock forward, and a
    // far-future element must be built against the clock that is in force when it is delivered.
    let next = garbage_headers(h);
    let mut suffix_hashes = vec![];
    let mut suffix_elems: Vec<Vec<u8>> = vec![];
    for _ in 0..n_after {
        let parent = h.pick_parent();
        let b = h.gen_block(&parent);
        suffix_hashes.push(gen::hash_of(&b));
        suffix_elems.push(gen::block_bytes(&b));
    }
    let Some(bad) = bad_element(h, class) else {
        // the prefix is already in the model: deliver it alone so that both stay in step
        world::set_replies(vec![world::reply_complete(elements.clone(), vec![])]);
        for _ in 0..7 {
            let _ = world::heartbeat();
        }
        let bb = h.model.best_chains();
        h.compare_anchor(ctx, &bb);
        return;
    };
    let bad_hash = parse::parse_header(&bad).map(|x| x.0);
    // a body-invalid element under a sound, connected header: in half of the cases that header
    // was announced by an earlier response (the way `next` does); the body is judged all the same
    if matches!(class, Bad::BadMerkle | Bad::NoCoinbase | Bad::NoTransactions | Bad::DuplicatedTx) && h.rng.chance(1, 2) {
        if let Some((hash, parent, _, time, _)) = parse::parse_header(&bad) {
            let parent_delivered = h.model.is_live(&parent) && prefix.iter().all(|(_, ph)| *ph != parent);
            if parent_delivered {
                let header = bad[..80].to_vec();
                let height = h.model.blocks[&parent].height + 1;
                h.hidden.push(crate::hist::Hidden { hash, parent, time, height, header: header.clone(), block: None });
                world::set_replies(vec![world::reply_complete(vec![], vec![header.clone()])]);
                let stored = |hash: &H| world::bookkeeping().next_by_hash.iter().any(|(b, _, _)| b.to_vec() == hash.to_vec());
                for _ in 0..8 {
                    if stored(&hash) {
                        break;
                    }
                    let _ = world::heartbeat();
                }
                h.note_announced(&[header]);
                h.log.push(format!("header {} announced before its (invalid) body is offered", short(&hash)));
                if stored(&hash) {
                    ctx.cov.count("c10_bad_body_under_announced_header");
                } else {
                    ctx.inconclusive(format!("a sound header announced ahead of its body was not stored (class {:?})", class));
                    h.desync = Some("announcement not stored".into());
                    return;
                }
            }
        }
    }
    elements.push(bad.clone());
    elements.extend(suffix_elems);
    let (_r0, d0, i0) = world::error_counters();
    let announced_before: std::collections::BTreeSet<Vec<u8>> =
        world::bookkeeping().next_by_hash.iter().map(|(b, _, _)| b.to_vec()).collect();
    let position = n_before;
    ctx.cov.count(&format!("c10_class_{:?}", class));
    ctx.cov.count(&format!("c10_bad_position_{}", position));
    ctx.cov.add("c10_garbage_next_headers", next.len() as u64);
    world::set_replies(vec![world::reply_complete(elements.clone(), next)]);
    // fetch, process, and give ingestion a chance
    for _ in 0..7 {
        match world::heartbeat() {
            Out::Trap(m) => {
                ctx.violation(
                    format!("heartbeat trapped while processing a response with a {:?} element at position {}: {}", class, position, m),
                    None,
                    json!({"log": h.log, "bad_element": hex::encode(&bad[..bad.len().min(200)])}),
                );
                h.desync = Some("trap".into());
                return;
            }
            Out::Ok(()) => {}
        }
        if can::with_state(|s| s.syncing_state.response_to_process.is_none()) && !world::is_ingesting() {
            // one more round for stabilisation, then stop
        }
    }
    let (_r1, d1, i1) = world::error_counters();
    let tree = world::tree_hashes();
    let admitted_bad = bad_hash.map(|bh| tree.contains(&bh)).unwrap_or(false);
    let _ = model_live_before;
    let was_present_before = bad_hash.map(|bh| h.model.is_live(&bh)).unwrap_or(false)
        || matches!(class, Bad::DuplicateUnstable | Bad::DuplicateAnchor | Bad::DuplicateStable);
    let exp = expected(class);
    ctx.cov.eval(Some(fp_str(&format!("c10|{:?}|{}|{}|{}", class, position, n_after, h.model.live_count()))));
    match exp {
        Some(false) => {
            if admitted_bad && !was_present_before {
                ctx.violation(
                    format!("a {:?} element (position {} of {}) became part of the tree", class, position, elements.len()),
                    None,
                    json!({"log": h.log}),
                );
                h.desync = Some("admitted bad".into());
                return;
            }
            let delta = (d1 - d0) + (i1 - i0);
            if delta != 1 {
                ctx.violation(
                    format!("a refused {:?} element moved the error counters by {} (deserialize {}, insert {}), expected exactly 1", class, delta, d1 - d0, i1 - i0),
                    None,
                    json!({"log": h.log}),
                );
            }
            for s in suffix_hashes.iter() {
                if tree.contains(s) {
                    ctx.violation(
                        format!("a block after the refused {:?} element of the same response was still inserted", class),
                        None,
                        json!({"log": h.log}),
                    );
                    h.desync = Some("suffix inserted".into());
                    return;
                }
            }
            // the announced headers of a response whose block was refused are dropped with it:
            // the stored set may shrink (a prefix block arrived) but must not grow
            let announced_after: std::collections::BTreeSet<Vec<u8>> =
                world::bookkeeping().next_by_hash.iter().map(|(b, _, _)| b.to_vec()).collect();
            if !announced_after.is_subset(&announced_before) {
                ctx.violation(
                    format!(
                        "announced headers of a response with a refused {:?} element were stored ({} new): the rest of that response must be dropped",
                        class,
                        announced_after.difference(&announced_before).count()
                    ),
                    None,
                    json!({"log": h.log}),
                );
            }
            ctx.cov.count("c10_rejects_confirmed");
        }
        None => {
            ctx.cov.count("c10_ambiguous_accepted");
            if admitted_bad {
                // follow the canister: the element decoded as a block
                if let Ok(pb) = parse::parse_block(&bad) {
                    if h.model.is_live(&pb.prev) && !h.model.is_live(&pb.hash) {
                        h.model.accept(&pb, 1);
                        let blk: bitcoin::Block = bitcoin::consensus::deserialize_partial(&bad).map(|x| x.0).unwrap();
                        h.raw.insert(pb.hash, blk);
                    }
                }
                for s in suffix_hashes.iter() {
                    if tree.contains(s) {
                        // suffix legitimately processed
                        let idx = elements.iter().position(|e| parse::parse_header(e).map(|x| x.0) == Some(*s)).unwrap();
                        let pb = parse::parse_block(&elements[idx]).unwrap();
                        if h.model.is_live(&pb.prev) {
                            h.model.accept(&pb, 1);
                            let blk: bitcoin::Block = bitcoin::consensus::deserialize(&elements[idx]).unwrap();
                            h.raw.insert(pb.hash, blk);
                        }
                    }
                }
            }
        }
        Some(true) => {}
    }
    // the prefix must have been admitted, and nothing else may have changed: model comparison
    for (_, ph) in prefix.iter() {
        if !tree.contains(ph) && h.model.is_live(ph) {
            // it may have been stabilised in the meantime; compare_anchor decides
        }
    }
    let best_before = h.model.best_chains();
    if !h.compare_anchor(ctx, &best_before) {
        if ctx.cov.violations.iter().all(|v| v.case != ctx.case) {
            ctx.violation(
                format!("after a response with a {:?} element at position {} the tree differs from (previous tree + valid prefix): {:?}", class, position, h.desync),
                None,
                json!({"log": h.log, "tree": world::tree_hashes().iter().map(short).collect::<Vec<_>>(),
                       "model": h.model.live_preorder().iter().map(short).collect::<Vec<_>>(),
                       "stable_height": world::stable_height(), "model_stable_height": h.model.stable_height(),
                       "counters": format!("{:?}", world::error_counters()),
                       "stored": can::with_state(|s| s.syncing_state.response_to_process.is_some()), "ingesting": world::is_ingesting()}),
            );
        }
        return;
    }
    // observable state equals the model's (ledger answers for every address)
    mon::check_c01(h, ctx, Some(3));
    mon::check_c07(h, ctx, false, 12);
    // FutureTime: once the clock has moved on, the same block must be admitted
    if class == Bad::FutureTime {
        if let Ok(pb) = parse::parse_block(&bad) {
            // the clock moves on for good (children of this block carry later timestamps)
            h.now += 3 * 3600;
            can::runtime::mock_time::set_mock_time_secs(h.now);
            world::set_replies(vec![world::reply_complete(vec![bad.clone()], vec![])]);
            for _ in 0..4 {
                let _ = world::heartbeat();
            }
            ctx.cov.count("c10_future_blocks_reoffered_later");
            if world::tree_hashes().contains(&pb.hash) {
                if h.model.is_live(&pb.prev) {
                    h.model.accept(&pb, 1);
                    let blk: bitcoin::Block = bitcoin::consensus::deserialize(&bad).unwrap();
                    h.raw.insert(pb.hash, blk);
                    let bb = h.model.best_chains();
                    h.compare_anchor(ctx, &bb);
                }
            } else if h.model.is_live(&pb.prev) {
                ctx.violation(
                    "a block refused for a timestamp too far in the future was still refused after the clock passed it".into(),
                    None,
                    json!({"log": h.log}),
                );
            }
        }
    }
    if ctx.cov.samples.len() < 4 {
        ctx.cov.sample(json!({"class": format!("{:?}", class), "position": position, "elements": elements.len(),
            "bad_element_prefix": hex::encode(&bad[..bad.len().min(48)]), "counters_after": [d1, i1]}));
    }
}

/// A response with valid blocks only (in parent-before-child order, on any live block) and
/// announced headers of every kind: everything must be admitted and nothing may trap.
fn valid_response(h: &mut Hist, ctx: &mut Ctx) {
    let n = h.rng.range(0, 3) as usize;
    let mut elements = vec![];
    for _ in 0..n {
        let parent = h.pick_parent();
        let b = h.gen_block(&parent);
        let bytes = gen::block_bytes(&b);
        let pb = parse::parse_block(&bytes).unwrap();
        h.model.accept(&pb, 1);
        h.raw.insert(pb.hash, b.clone());
        h.log.push(format!("block {} on {} (valid response)", short(&pb.hash), short(&pb.prev)));
        elements.push(bytes);
    }
    let next = garbage_headers(h);
    let (_r0, d0, i0) = world::error_counters();
    ctx.cov.count("c10_valid_only_responses");
    ctx.cov.add("c10_announced_headers_offered", next.len() as u64);
    world::set_replies(vec![world::reply_complete(elements.clone(), next.clone())]);
    for _ in 0..7 {
        if let Out::Trap(m) = world::heartbeat() {
            ctx.violation(
                format!("heartbeat trapped while processing a response of valid blocks with {} announced headers: {}", next.len(), m),
                None,
                json!({"log": h.log, "announced": next.iter().map(|x| hex::encode(&x[..x.len().min(80)])).collect::<Vec<_>>()}),
            );
            h.desync = Some("trap".into());
            return;
        }
    }
    let (_r1, d1, i1) = world::error_counters();
    ctx.cov.eval(Some(fp_str(&format!("c10valid|{}|{}|{}", n, next.len(), h.model.live_count()))));
    if d1 != d0 || i1 != i0 {
        ctx.violation(
            format!("a response of {} valid blocks moved the error counters (deserialize +{}, insert +{})", n, d1 - d0, i1 - i0),
            None,
            json!({"log": h.log}),
        );
    }
    let bb = h.model.best_chains();
    if !h.compare_anchor(ctx, &bb) {
        if ctx.cov.violations.iter().all(|v| v.case != ctx.case) {
            ctx.violation(
                format!("after a response of {} valid blocks the tree is not (previous tree + those blocks): {:?}", n, h.desync),
                None,
                json!({"log": h.log}),
            );
        }
        return;
    }
    mon::check_c01(h, ctx, Some(3));
}
