//! C19 — send_transaction forwards exactly the well-formed transactions.

use crate::cov::{Ctx, Tier};
use crate::gen;
use crate::parse::{self, PErr};
use crate::rng::{fp_str, Rng};
use crate::world::{self, Out, WorldCfg};
use ic_btc_canister as can;
use ic_btc_interface::{Flag, Network, SendTransactionError};
use serde_json::json;

#[derive(Debug, Clone, Copy, PartialEq)]
enum Verdict {
    WellFormed,
    Malformed,
    Ambiguous,
}

/// Three-valued oracle from the own strict parser.
fn classify(bytes: &[u8]) -> Verdict {
    // zero-input encodings: the marker byte and the input count collide
    let zero_in_shape = bytes.len() >= 5 && bytes[4] == 0;
    match parse::parse_tx_strict(bytes) {
        Ok(tx) => {
            if tx.inputs.is_empty() || zero_in_shape && !tx.segwit {
                Verdict::Ambiguous
            } else {
                Verdict::WellFormed
            }
        }
        Err(PErr::SegwitNoWitness) => {
            // superfluous witness record: refused by Bitcoin Core, tolerated by some decoders
            // when there are no inputs
            if zero_in_shape {
                Verdict::Ambiguous
            } else {
                Verdict::Malformed
            }
        }
        Err(_) => {
            if zero_in_shape && bytes.len() >= 6 && bytes[5] == 0 {
                Verdict::Ambiguous
            } else {
                Verdict::Malformed
            }
        }
    }
}

fn random_tx(rng: &mut Rng) -> Vec<u8> {
    let n_in = rng.range(1, 3) as usize;
    let ins: Vec<([u8; 32], u32)> = (0..n_in)
        .map(|_| {
            let mut t = [0u8; 32];
            t.copy_from_slice(&rng.bytes(32));
            (t, rng.range(0, 5) as u32)
        })
        .collect();
    let n_out = rng.range(0, 3) as usize;
    let outs: Vec<(u64, Vec<u8>)> = (0..n_out)
        .map(|_| {
            let s = match rng.below(4) {
                0 => gen::script_p2pkh(&rng.bytes(20)),
                1 => gen::script_witness(0, &rng.bytes(20)),
                2 => gen::script_witness(1, &rng.bytes(32)),
                _ => {
                    let n = rng.range(0, 40) as usize;
                    rng.bytes(n)
                }
            };
            (rng.range(0, 10_000_000), s)
        })
        .collect();
    let w = if rng.chance(1, 2) { rng.range(1, 3) as usize } else { 0 };
    let sig = if w == 0 { rng.range(0, 60) as usize } else { 0 };
    let tx = gen::spend_tx(&ins, outs, w, sig, rng);
    bitcoin::consensus::serialize(&tx)
}

struct Probe {
    payload: Vec<u8>,
    family: &'static str,
}

fn probes_for(tx: &[u8], rng: &mut Rng, all_bits: bool) -> Vec<Probe> {
    let mut v = vec![Probe { payload: tx.to_vec(), family: "exact" }];
    for cut in 0..tx.len() {
        v.push(Probe { payload: tx[..cut].to_vec(), family: "truncated" });
    }
    for n in 1..=8usize {
        let mut p = tx.to_vec();
        p.extend(rng.bytes(n));
        v.push(Probe { payload: p, family: "extended" });
        let mut p = tx.to_vec();
        p.extend(std::iter::repeat(0u8).take(n));
        v.push(Probe { payload: p, family: "extended_zero" });
    }
    for n in 1..=3usize {
        let mut p = rng.bytes(n);
        p.extend_from_slice(tx);
        v.push(Probe { payload: p, family: "prefixed" });
    }
    // two transactions back to back
    let mut p = tx.to_vec();
    p.extend_from_slice(tx);
    v.push(Probe { payload: p, family: "two_transactions" });
    let bits = tx.len() * 8;
    if all_bits && bits <= 1600 {
        for b in 0..bits {
            let mut p = tx.to_vec();
            p[b / 8] ^= 1 << (b % 8);
            v.push(Probe { payload: p, family: "bit_flip" });
        }
    } else {
        for _ in 0..64 {
            let b = rng.usize_below(bits);
            let mut p = tx.to_vec();
            p[b / 8] ^= 1 << (b % 8);
            v.push(Probe { payload: p, family: "bit_flip" });
        }
    }
    v
}

pub fn lane_send(ctx: &mut Ctx) {
    let max_cases = if ctx.tier == Tier::Quick { 100_000 } else { 10_000_000 };
    for k in ctx.cases("send", max_cases) {
        if !ctx.time_left() {
            break;
        }
        ctx.begin("send", k);
        let mut rng = Rng::derive(&[ctx.seed, fp_str("send"), k]);
        let net = *rng.pick(&[Network::Regtest, Network::Mainnet, Network::Testnet]);
        let mut cfg = WorldCfg::new(net, 6);
        cfg.sync_gate = if rng.chance(1, 2) { Flag::Enabled } else { Flag::Disabled };
        world::reset(&cfg);
        let source = match world::get_config() {
            Out::Ok(c) => c.blocks_source,
            _ => continue,
        };
        // the sync rule does not apply to this endpoint: on regtest (where headers can be mined)
        // a third of the cases run on a canister that is several announced headers behind
        if net == Network::Regtest && rng.chance(1, 3) {
            let g = gen::genesis(net);
            let mut parent = gen::hash_of(&g);
            let mut time = g.header.time;
            let mut next = vec![];
            for i in 0..rng.range(3, 6) {
                time += 600;
                let cb = gen::coinbase_tx(i as u32 + 1, k, vec![(1, vec![0x51])]);
                let b = gen::make_block(net, parent, time, vec![cb], true);
                parent = gen::hash_of(&b);
                next.push(gen::header_bytes(&b.header));
            }
            world::set_replies(vec![world::reply_complete(vec![], next)]);
            for _ in 0..2 {
                let _ = world::heartbeat();
            }
            let behind = world::bookkeeping().next_by_hash.len();
            if behind >= 3 {
                ctx.cov.count(if cfg.sync_gate == Flag::Enabled { "c19_cases_not_synced_gate_on" } else { "c19_cases_not_synced_gate_off" });
            }
        }
        let mut probes: Vec<Probe> = vec![];
        let tx = random_tx(&mut rng);
        if classify(&tx) != Verdict::WellFormed {
            panic!("generated transaction is not well-formed for the strict parser: {}", hex::encode(&tx));
        }
        probes.extend(probes_for(&tx, &mut rng, tx.len() <= 200));
        // special shapes
        probes.push(Probe { payload: vec![], family: "empty" });
        for _ in 0..8 {
            let n = rng.range(1, 120) as usize;
            probes.push(Probe { payload: rng.bytes(n), family: "random" });
        }
        // zero inputs / zero outputs encodings
        probes.push(Probe { payload: vec![1, 0, 0, 0, 0, 0, 0, 0, 0, 0], family: "zero_in_zero_out" });
        probes.push(Probe { payload: vec![2, 0, 0, 0, 0, 1, 0, 0, 0, 0, 0, 0], family: "segwit_flag_zero_inputs" });
        let mut z = vec![1, 0, 0, 0, 0, 1];
        z.extend_from_slice(&[5, 0, 0, 0, 0, 0, 0, 0, 0, 0, 0, 0, 0]);
        probes.push(Probe { payload: z, family: "zero_in_one_out_legacy" });
        for p in probes.iter() {
            let want = classify(&p.payload);
            // flag / network matrix on a sample, the plain configuration always
            let combos: Vec<(Flag, Network)> = if rng.chance(1, 8) {
                vec![
                    (Flag::Enabled, net),
                    (Flag::Disabled, net),
                    (Flag::Enabled, other_net(net, 1)),
                    (Flag::Enabled, other_net(net, 2)),
                    (Flag::Disabled, other_net(net, 1)),
                ]
            } else {
                vec![(Flag::Enabled, net)]
            };
            for (flag, req_net) in combos {
                let _ = world::set_config(ic_btc_interface::SetConfigRequest { api_access: Some(flag), ..Default::default() });
                let count0 = world::send_tx_count();
                can::runtime::verif::take_sent_transactions();
                let r = world::send_transaction(p.payload.clone(), req_net);
                let sent = can::runtime::verif::take_sent_transactions();
                let count1 = world::send_tx_count();
                let allowed = flag == Flag::Enabled && req_net == net;
                ctx.cov.count(&format!("c19_family_{}", p.family));
                ctx.cov.count(&format!("c19_verdict_{:?}", want));
                ctx.cov.eval(Some(fp_str(&format!("c19|{}|{:?}|{}|{}", p.family, want, allowed, p.payload.len()))));
                let forwarded_ok = sent.len() == 1 && sent[0].0 == source && sent[0].1.transaction == p.payload && sent[0].1.network == net;
                let detail = json!({"payload": hex::encode(&p.payload), "family": p.family, "net": gen::net_name(net), "requested_net": gen::net_name(req_net),
                    "api_access": format!("{:?}", flag), "result": format!("{:?}", r), "forwarded": sent.len(), "counted": count1 - count0});
                if !allowed {
                    ctx.cov.count("c19_refused_by_flag_or_network");
                    if !r.is_trap() || !sent.is_empty() || count1 != count0 {
                        ctx.violation(
                            format!("send_transaction with api_access {:?} / requested network {} on a {} canister was not refused without effect", flag, gen::net_name(req_net), gen::net_name(net)),
                            None,
                            detail,
                        );
                    }
                    continue;
                }
                match (want, &r) {
                    (_, Out::Trap(m)) => ctx.violation(format!("send_transaction trapped: {}", m), None, detail),
                    (Verdict::WellFormed, Out::Ok(Ok(()))) => {
                        if !forwarded_ok || count1 != count0 + 1 {
                            ctx.violation("a well-formed transaction was answered Ok but not forwarded unchanged exactly once and counted once".into(), None, detail);
                        }
                    }
                    (Verdict::WellFormed, Out::Ok(Err(e))) => {
                        ctx.violation(format!("a well-formed transaction was refused: {:?}", e), None, detail);
                    }
                    (Verdict::Malformed, Out::Ok(Ok(()))) => {
                        ctx.violation(
                            format!("a payload that is not exactly one serialised transaction ({}) was accepted{}", p.family, if sent.is_empty() { "" } else { " and forwarded" }),
                            None,
                            detail,
                        );
                    }
                    (Verdict::Malformed, Out::Ok(Err(e))) => {
                        if *e != SendTransactionError::MalformedTransaction {
                            ctx.violation(format!("malformed payload refused with {:?}", e), None, detail);
                        } else if !sent.is_empty() || count1 != count0 {
                            ctx.violation("a refused payload was forwarded or counted".into(), None, detail);
                        }
                    }
                    (Verdict::Ambiguous, Out::Ok(Ok(()))) => {
                        ctx.cov.count("c19_ambiguous_accepted");
                        if !forwarded_ok || count1 != count0 + 1 {
                            ctx.violation("payload answered Ok but not forwarded unchanged exactly once and counted once".into(), None, detail);
                        }
                    }
                    (Verdict::Ambiguous, Out::Ok(Err(_))) => {
                        ctx.cov.count("c19_ambiguous_accepted");
                        if !sent.is_empty() || count1 != count0 {
                            ctx.violation("a refused payload was forwarded or counted".into(), None, detail);
                        }
                    }
                }
            }
        }
        let _ = world::set_config(ic_btc_interface::SetConfigRequest { api_access: Some(Flag::Enabled), ..Default::default() });
        if ctx.cov.samples.len() < 3 {
            ctx.cov.sample(json!({"net": gen::net_name(net), "transaction": hex::encode(&tx), "probes": probes.len()}));
        }
    }
}

fn other_net(n: Network, i: usize) -> Network {
    let all = [Network::Mainnet, Network::Testnet, Network::Regtest];
    let idx = all.iter().position(|x| *x == n).unwrap();
    all[(idx + i) % 3]
}
