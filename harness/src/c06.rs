//! C06 — paginated answers form one consistent snapshot under interleaved events.

use crate::cov::Ctx;
use crate::gen;
use crate::hist::{Hist, HistCfg, Palette, Path};
use crate::mon::{diff_utxos, to_autxos};
use crate::parse::H;
use crate::rng::{fp_str, Rng};
use crate::world::{self, Filter, Out};
use ic_btc_interface::{GetUtxosError, Network};
use serde_json::json;

fn short(h: &H) -> String {
    gen::hex32(h)[..10].to_string()
}

fn cfg_for(rng: &mut Rng) -> HistCfg {
    let (net, path) = match rng.below(6) {
        0..=2 => (Network::Regtest, Path::Insert),
        3 => (Network::Regtest, Path::Heartbeat),
        4 => (Network::Mainnet, Path::Push),
        _ => (Network::Testnet, Path::Push),
    };
    HistCfg {
        net,
        path,
        threshold: rng.range(2, 6) as u32,
        n_each: 1,
        max_txs: 3,
        fork_pct: 30,
        palette: if path == Path::Heartbeat { Palette::One } else { *rng.pick(&[Palette::One, Palette::Random(3), Palette::Heavy(8)]) },
        fanout_pct: 45,
        share_pct: 10,
        lazy_fees: true,
        sync_gate: false,
        ingest_pct: 100,
        fee_txs: true,
    }
}

#[derive(Debug, Clone, Copy, PartialEq)]
enum Ev {
    None,
    GrowBest,
    GrowCompetitor,
    Stabilise,
    DiscardTipChain,
    Upgrade,
}

/// Applies one interleaved event. Returns false if the history cannot continue.
fn apply_event(h: &mut Hist, ctx: &mut Ctx, ev: Ev, t0: &H) -> bool {
    match ev {
        Ev::None => true,
        Ev::GrowBest => {
            let tip = *h.model.best_chains()[0].last().unwrap();
            h.add_block_on(&tip, ctx).is_some() && h.opportunity(ctx)
        }
        Ev::GrowCompetitor => {
            // a block on a branch that does not contain t0 (fork off one of t0's ancestors)
            if !h.model.is_live(t0) {
                return true;
            }
            let path = h.model.path_from_anchor(t0);
            let live = h.model.live_preorder();
            let cands: Vec<H> = live
                .iter()
                .filter(|b| !crate::hist::is_ancestor_or_self(&h.model, t0, b))
                .cloned()
                .collect();
            let parent = if !cands.is_empty() && h.rng.chance(2, 3) {
                // extend an existing competitor (prefer its tip)
                let tips: Vec<H> = cands.iter().filter(|b| h.model.kids(b).is_empty()).cloned().collect();
                if tips.is_empty() { *h.rng.pick(&cands) } else { *h.rng.pick(&tips) }
            } else {
                let i = h.rng.usize_below(path.len().max(2) - 1);
                path[i.min(path.len() - 1)]
            };
            if parent == *t0 {
                return true;
            }
            let n = h.rng.range(1, 3);
            let mut p = parent;
            for _ in 0..n {
                match h.add_block_on(&p, ctx) {
                    Some(nb) => p = nb,
                    None => return false,
                }
                if !h.opportunity(ctx) {
                    return false;
                }
            }
            true
        }
        Ev::Stabilise => {
            // extend t0's own chain until the anchor moves (at most 12 blocks)
            if !h.model.is_live(t0) {
                return true;
            }
            let before = h.model.stable_height();
            // the tip of the longest chain through t0
            let mut tip = *t0;
            loop {
                let kids = h.model.kids(&tip).to_vec();
                if kids.is_empty() {
                    break;
                }
                tip = kids[0];
            }
            for _ in 0..12 {
                match h.add_block_on(&tip, ctx) {
                    Some(nb) => tip = nb,
                    None => return false,
                }
                if !h.opportunity(ctx) {
                    return false;
                }
                if h.model.stable_height() > before {
                    break;
                }
            }
            true
        }
        Ev::DiscardTipChain => {
            if !h.model.is_live(t0) || *t0 == h.model.anchor {
                return true;
            }
            // grow a competitor from the anchor (or a low ancestor) until t0 leaves the tree
            let path = h.model.path_from_anchor(t0);
            let mut p = path[0];
            for _ in 0..40 {
                match h.add_block_on(&p, ctx) {
                    Some(nb) => p = nb,
                    None => return false,
                }
                if !h.opportunity(ctx) {
                    return false;
                }
                if !h.model.is_live(t0) {
                    break;
                }
                // if the anchor moved along t0's chain, restart from the new anchor
                if !h.model.is_live(&p) {
                    p = h.model.anchor;
                }
            }
            true
        }
        Ev::Upgrade => h.upgrade(ctx),
    }
}

pub fn lane_pages(ctx: &mut Ctx) {
    let max_cases = if ctx.tier == crate::cov::Tier::Quick { 100_000 } else { 10_000_000 };
    for k in ctx.cases("pages", max_cases) {
        if !ctx.time_left() {
            break;
        }
        ctx.begin("pages", k);
        let mut rng = Rng::derive(&[ctx.seed, fp_str("pages"), k]);
        let cfg = cfg_for(&mut rng);
        let mut h = Hist::new(cfg, rng);
        let warm = h.rng.range(4, 14);
        let mut ok = true;
        for _ in 0..warm {
            if !h.step(ctx) {
                ok = false;
                break;
            }
        }
        if !ok {
            if ctx.cov.violations.iter().all(|v| v.case != k) {
                ctx.inconclusive(format!("history abandoned: {:?}", h.desync));
            }
            continue;
        }
        // several page chains per history
        for _chain in 0..4 {
            if h.desync.is_some() || !ctx.time_left() {
                break;
            }
            page_chain(&mut h, ctx);
            blob_fuzz(&mut h, ctx);
            // move on a little
            for _ in 0..h.rng.range(0, 3) {
                if !h.step(ctx) {
                    break;
                }
            }
        }
        if let Some(d) = &h.desync {
            if ctx.cov.violations.iter().all(|v| v.case != k) {
                ctx.inconclusive(format!("history abandoned: {}", d));
            }
        }
    }
}

fn page_chain(h: &mut Hist, ctx: &mut Ctx) {
    page_chain_with(h, ctx, false)
}

fn page_chain_with(h: &mut Hist, ctx: &mut Ctx, real_limit: bool) {
    page_chain_lim(h, ctx, real_limit, None)
}

/// `wide`: a page size (through the hook) chosen by the caller for addresses that received
/// hundreds of outputs from one transaction; events are then biased towards stabilisation like
/// with the real limit.
fn page_chain_lim(h: &mut Hist, ctx: &mut Ctx, real_limit: bool, wide: Option<usize>) {
    let net = h.net();
    // an address with as many UTXOs as possible at the best tip
    let best_tip = *h.model.best_chains()[0].last().unwrap();
    let addrs = h.uni.addrs.clone();
    let mut best_a = None;
    let mut best_n = 0;
    for a in addrs.iter() {
        let n = h.model.utxos_of(&best_tip, &a.script).len();
        if n > best_n {
            best_n = n;
            best_a = Some(a.clone());
        }
    }
    let Some(a) = best_a else { return };
    if best_n < 2 {
        return;
    }
    let limit = if real_limit { 1000 } else if let Some(w) = wide { w } else { h.rng.range(1, (best_n as u64 - 1).min(7)) as usize };
    let stabilise_bias = real_limit || wide.is_some();
    if wide.is_some() {
        ctx.cov.count("c06_chains_over_wide_transactions");
    }
    if real_limit {
        ctx.cov.count("c06_chains_with_the_real_1000_limit");
        ctx.cov.max("max_utxos_of_one_address", best_n as u64);
    }
    // "from any first response": with or without a confirmation filter
    let best_len = h.model.best_chains()[0].len() as u32;
    let first_filter = if h.rng.chance(1, 3) && best_len >= 1 {
        ctx.cov.count("c06_chains_started_with_min_confirmations");
        Filter::MinConf(h.rng.range(1, best_len as u64) as u32)
    } else {
        Filter::None
    };
    let first = match if real_limit { world::get_utxos_query(&a.text, net, &first_filter) } else { world::get_utxos_limit(&a.text, net, &first_filter, limit) } {
        Out::Ok(Ok(r)) => r,
        other => {
            ctx.violation(format!("first page failed: {:?}", other), None, json!({"log": h.log}));
            return;
        }
    };
    let Some(t0) = world::h32(&first.tip_block_hash) else {
        ctx.violation("first page names a malformed tip".into(), None, json!({"log": h.log}));
        return;
    };
    if !h.model.is_live(&t0) {
        ctx.violation("first page names a tip that is not in the tree".into(), None, json!({"log": h.log}));
        return;
    }
    let expected = h.model.utxos_of(&t0, &a.script);
    let t0_height = h.model.blocks[&t0].height;
    let mut all = first.utxos.clone();
    let mut next = first.next_page.clone();
    let mut pages = 1u64;
    let mut events: Vec<String> = vec![];
    let mut errored = false;
    if first.utxos.len() > limit {
        ctx.violation(format!("page holds {} elements, limit {}", first.utxos.len(), limit), None, json!({"log": h.log}));
    }
    while let Some(tok) = next.clone() {
        // interleave events
        let n_ev = h.rng.range(0, 2);
        for _ in 0..n_ev {
            let ev = if stabilise_bias {
                // many outputs of one transaction: the interesting transition is unstable -> stable
                *h.rng.pick(&[Ev::Stabilise, Ev::Stabilise, Ev::Stabilise, Ev::GrowBest, Ev::GrowCompetitor, Ev::Upgrade, Ev::None])
            } else {
                *h.rng.pick(&[Ev::GrowBest, Ev::GrowCompetitor, Ev::GrowCompetitor, Ev::Stabilise, Ev::DiscardTipChain, Ev::Upgrade, Ev::None])
            };
            if ev != Ev::None {
                events.push(format!("{:?}", ev));
                ctx.cov.count(&format!("c06_event_{:?}", ev));
            }
            if !apply_event(h, ctx, ev, &t0) {
                return;
            }
        }
        let still = h.model.is_live(&t0);
        let r = if real_limit {
            world::get_utxos_query(&a.text, net, &Filter::Page(tok.to_vec()))
        } else {
            world::get_utxos_limit(&a.text, net, &Filter::Page(tok.to_vec()), limit)
        };
        ctx.cov.count("c06_page_requests");
        match r {
            Out::Trap(m) => {
                ctx.violation(format!("page request trapped: {}", m), None, json!({"log": h.log, "events": events}));
                return;
            }
            Out::Ok(Err(e)) => {
                ctx.cov.count("c06_explicit_error_outcomes");
                ctx.cov.eval(Some(fp_str(&format!("c06err|{:?}|{}", events, pages))));
                let unknown = matches!(e, GetUtxosError::UnknownTipBlockHash { .. });
                if still {
                    ctx.violation(
                        format!("page {} of a chain started at tip {} (height {}) failed with {:?} although that block is still in the tree (events between pages: {:?})",
                            pages + 1, short(&t0), t0_height, e, events),
                        None,
                        json!({"log": h.log}),
                    );
                } else if !unknown {
                    ctx.violation(format!("tip gone: expected an unknown-tip error, got {:?}", e), None, json!({"log": h.log}));
                }
                errored = true;
                break;
            }
            Out::Ok(Ok(r)) => {
                if !still {
                    ctx.violation(
                        format!("page {} answered although the chain's tip {} is no longer in the tree (events: {:?})", pages + 1, short(&t0), events),
                        None,
                        json!({"log": h.log}),
                    );
                    return;
                }
                if world::h32(&r.tip_block_hash) != Some(t0) || r.tip_height != t0_height {
                    ctx.violation(
                        format!(
                            "page {} names tip {} (height {}), the chain was started at tip {} (height {}); events between pages: {:?}",
                            pages + 1, hex::encode(&r.tip_block_hash[..5.min(r.tip_block_hash.len())]), r.tip_height, short(&t0), t0_height, events
                        ),
                        None,
                        json!({"log": h.log}),
                    );
                    return;
                }
                if r.utxos.len() > limit {
                    ctx.violation(format!("page holds {} elements, limit {}", r.utxos.len(), limit), None, json!({"log": h.log}));
                }
                all.extend(r.utxos.iter().cloned());
                next = r.next_page.clone();
                pages += 1;
                if pages > 10_000 {
                    ctx.violation("page chain does not terminate".into(), None, json!({"log": h.log}));
                    return;
                }
            }
        }
    }
    ctx.cov.add("c06_page_borders_crossed", pages - 1);
    if !errored {
        ctx.cov.count("c06_page_chains_completed");
        if !events.is_empty() {
            ctx.cov.count("c06_chains_with_intervening_events");
        }
        ctx.cov.eval(Some(fp_str(&format!("c06|{:?}|{}|{}|{:?}", events, pages, expected.len(), h.shape_sig()))));
        let observed = to_autxos(&all);
        if let Some(d) = diff_utxos(&observed, &expected) {
            ctx.violation(
                format!("pages concatenated ({} pages, limit {}, events {:?}) differ from the UTXO set at the first response's tip {}: {}",
                    pages, limit, events, short(&t0), d),
                None,
                json!({"log": h.log}),
            );
        } else if !observed.windows(2).all(|w| w[0].height >= w[1].height) {
            ctx.violation("concatenated pages are not in descending height order".into(), None, json!({"log": h.log, "events": events}));
        }
        if ctx.cov.samples.len() < 4 && !events.is_empty() {
            ctx.cov.sample(json!({"address": a.text, "limit": limit, "pages": pages, "elements": observed.len(), "events_between_pages": events,
                "first_tip_height": t0_height}));
        }
    }
}

/// Arbitrary byte strings as page tokens: an answer or an explicit error, never a trap.
fn blob_fuzz(h: &mut Hist, ctx: &mut Ctx) {
    let net = h.net();
    let a = h.rng.pick(&h.uni.addrs).clone();
    for _ in 0..6 {
        let blob: Vec<u8> = match h.rng.below(5) {
            0 => {
                let n = h.rng.range(0, 200) as usize;
                h.rng.bytes(n)
            }
            1 => h.rng.bytes(72),
            _ => {
                // well-formed token: known or unknown tip, arbitrary height / outpoint
                let live = h.model.live_preorder();
                let tip: H = if h.rng.chance(3, 4) {
                    *h.rng.pick(&live)
                } else {
                    let mut x = [0u8; 32];
                    x.copy_from_slice(&h.rng.bytes(32));
                    x
                };
                let height: u32 = match h.rng.below(3) {
                    0 => h.rng.range(0, 30) as u32,
                    1 => u32::MAX - h.rng.range(0, 2) as u32,
                    _ => h.rng.next_u64() as u32,
                };
                let mut v = tip.to_vec();
                v.extend(height.to_be_bytes().iter().map(|b| b ^ 0xff));
                v.extend(h.rng.bytes(32));
                v.extend((h.rng.range(0, 3) as u32).to_le_bytes());
                v
            }
        };
        let r = world::get_utxos_limit(&a.text, net, &Filter::Page(blob.clone()), h.rng.range(1, 5) as usize);
        ctx.cov.count("c06_blobs_tried");
        match r {
            Out::Trap(m) => {
                ctx.violation(
                    format!("a {}-byte page blob trapped the request: {}", blob.len(), m),
                    None,
                    json!({"log": h.log, "blob": hex::encode(&blob)}),
                );
            }
            Out::Ok(Err(e)) => {
                ctx.cov.count("c06_blobs_rejected_explicitly");
                if blob.len() == 72 {
                    let mut t = [0u8; 32];
                    t.copy_from_slice(&blob[..32]);
                    if h.model.is_live(&t) {
                        ctx.violation(format!("well-formed token for a tip in the tree refused: {:?}", e), None, json!({"log": h.log}));
                    }
                }
            }
            Out::Ok(Ok(r)) => {
                ctx.cov.count("c06_blobs_answered");
                ctx.cov.eval(Some(fp_str(&format!("c06blob|{}|{}", blob.len(), r.utxos.len()))));
                // must be a subset of the ledger at the token's tip, sorted
                if blob.len() != 72 {
                    ctx.violation(format!("{}-byte blob accepted as a page", blob.len()), None, json!({"log": h.log}));
                    continue;
                }
                let mut t = [0u8; 32];
                t.copy_from_slice(&blob[..32]);
                if !h.model.is_live(&t) {
                    ctx.violation("token for an unknown tip answered".into(), None, json!({"log": h.log}));
                    continue;
                }
                let ledger = h.model.utxos_of(&t, &a.script);
                let obs = to_autxos(&r.utxos);
                if !obs.iter().all(|u| ledger.contains(u)) {
                    ctx.violation("page for a forged token contains elements outside the ledger at its tip".into(), None, json!({"log": h.log}));
                }
                if !obs.windows(2).all(|w| w[0].height >= w[1].height) {
                    ctx.violation("page for a forged token not in descending height order".into(), None, json!({"log": h.log}));
                }
            }
        }
    }
}

/// Addresses with 1001-3500 UTXOs spread over stable and unstable blocks, paged with the real limit.
pub fn lane_bigpages(ctx: &mut Ctx) {
    let max_cases = if ctx.tier == crate::cov::Tier::Quick { 64 } else { 100_000 };
    for k in ctx.cases("bigpages", max_cases) {
        if !ctx.time_left() {
            break;
        }
        ctx.begin("bigpages", k);
        let mut rng = Rng::derive(&[ctx.seed, fp_str("bigpages"), k]);
        let mut cfg = cfg_for(&mut rng);
        if cfg.path == Path::Heartbeat {
            cfg.path = Path::Insert;
        }
        cfg.fanout_pct = 0;
        cfg.threshold = rng.range(2, 4) as u32;
        let mut h = Hist::new(cfg, rng);
        // every other case: one transaction with 257-700 outputs to the target (vout beyond one
        // byte) and page sizes in the hundreds, instead of thousands of outputs and the real limit
        let wide = k % 2 == 1;
        let total = if wide { h.rng.range(257, 700) as usize } else { h.rng.range(1001, 3500) as usize };
        let target = h.uni.addrs[h.rng.usize_below(h.uni.addrs.len())].clone();
        // several blocks, each with a coinbase paying many outputs to the target
        let blocks = if wide { 1 } else { h.rng.range(2, 6) as usize };
        let mut left = total;
        let mut ok = true;
        for bi in 0..blocks {
            let n = if bi + 1 == blocks { left } else { h.rng.range(1, (left as u64 - (blocks - bi - 1) as u64).max(1)) as usize };
            left -= n;
            let tip = *h.model.best_chains()[0].last().unwrap();
            let height = h.model.blocks[&tip].height + 1;
            h.uniq += 1;
            let outs: Vec<(u64, Vec<u8>)> = (0..n).map(|i| (1000 + i as u64, target.script.clone())).collect();
            let cb = gen::coinbase_tx(height, h.uniq, outs);
            let time = h.model.blocks[&tip].time + 100;
            let b = gen::make_block(h.net(), tip, time, vec![cb], h.cfg.path != Path::Push);
            if h.deliver(b, 1, ctx).is_none() || !h.opportunity(ctx) {
                ok = false;
                break;
            }
            // ordinary blocks in between (spends of some of those outputs, forks)
            for _ in 0..h.rng.range(0, 2) {
                if !h.step(ctx) {
                    ok = false;
                    break;
                }
            }
            if !ok {
                break;
            }
        }
        if ok {
            if ctx.prop == "C01" {
                crate::mon::check_c01(&mut h, ctx, None);
            } else if wide {
                // page boundaries inside the wide transaction's outputs, beyond vout 255
                for _ in 0..3 {
                    let w = *h.rng.pick(&[64usize, 100, 128, 200, 255, 256, 257, 300]);
                    page_chain_lim(&mut h, ctx, false, Some(w));
                }
            } else {
                page_chain_with(&mut h, ctx, true);
                page_chain_with(&mut h, ctx, true);
            }
        }
        if let Some(d) = &h.desync {
            if ctx.cov.violations.iter().all(|v| v.case != k || v.lane != "bigpages") {
                ctx.inconclusive(format!("history abandoned: {}", d));
            }
        }
    }
}
