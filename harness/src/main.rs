//! btcmon — runtime monitors for dfinity/bitcoin-canister.
//!
//!   btcmon check <ID> [--tier quick|thorough] [--replay <file>]
//!   btcmon worker <ID> <tier> <seed> <shard> <nshards> <budget_s> <out> [<lane> <case>]

#![allow(dead_code)]
mod c06;
mod c08;
mod c10;
mod c11;
mod c12;
mod c14;
mod c16;
mod c19;
mod cov;
mod fees;
mod gen;
mod hist;
mod lanes;
mod model;
mod mon;
mod parse;
mod refhdr;
mod rng;
mod sched;
mod snap;
mod wd;
mod world;

use cov::{Cov, Ctx, Tier};
use serde_json::{json, Value};
use std::collections::{BTreeMap, BTreeSet};
use std::io::Write;
use std::process::{Command, Stdio};
use std::time::{Duration, Instant};

/// Where known_findings.json, replays/ and evidence/ live. Always /verif for registered checks;
/// the mutation sweep (bin/mutation-sweep) points a private copy somewhere else.
fn verif_dir() -> String {
    std::env::var("BTCMON_VERIF_DIR").unwrap_or_else(|_| "/verif".to_string())
}

fn usage() -> ! {
    eprintln!("usage: btcmon check <ID> [--tier quick|thorough] [--replay file] | btcmon worker ...");
    std::process::exit(2);
}

fn main() {
    let args: Vec<String> = std::env::args().collect();
    if args.len() < 3 {
        usage();
    }
    match args[1].as_str() {
        "worker" => worker(&args[2..]),
        "check" => orchestrate(&args[2..]),
        _ => usage(),
    }
}

fn parse_tier(s: &str) -> Tier {
    match s {
        "quick" => Tier::Quick,
        "thorough" => Tier::Thorough,
        _ => usage(),
    }
}

fn worker(a: &[String]) {
    if a.len() < 7 {
        usage();
    }
    let prop = a[0].clone();
    let tier = parse_tier(&a[1]);
    let seed: u64 = a[2].parse().unwrap();
    let shard: u64 = a[3].parse().unwrap();
    let nshards: u64 = a[4].parse().unwrap();
    let budget_s: f64 = a[5].parse().unwrap();
    let out = a[6].clone();
    let only_case = if a.len() >= 9 {
        Some((a[7].clone(), a[8].parse::<u64>().unwrap()))
    } else {
        None
    };
    world::install_panic_hook();
    let mut ctx = Ctx {
        prop: prop.clone(),
        tier,
        seed,
        shard,
        nshards,
        only_case,
        cov: Cov::default(),
        start: Instant::now(),
        budget_s,
        lane: String::new(),
        case: 0,
    };
    // a harness panic outside a guarded canister call is a harness error: report, never a violation
    let r = std::panic::catch_unwind(std::panic::AssertUnwindSafe(|| {
        lanes::run(&mut ctx);
    }));
    let mut j = ctx.cov.to_json();
    if let Err(e) = r {
        let msg = if let Some(s) = e.downcast_ref::<String>() {
            s.clone()
        } else if let Some(s) = e.downcast_ref::<&str>() {
            s.to_string()
        } else {
            "panic".into()
        };
        j["harness_error"] = json!(format!("lane {} case {}: {}", ctx.lane, ctx.case, msg));
    }
    j["wall_s"] = json!(ctx.start.elapsed().as_secs_f64());
    std::fs::write(&out, serde_json::to_vec(&j).unwrap()).unwrap();
}

struct Known {
    property: String,
    status: String,
    signature: String,
    description: String,
}

fn load_known() -> Vec<Known> {
    let p = format!("{}/known_findings.json", verif_dir());
    let Ok(s) = std::fs::read_to_string(&p) else {
        return vec![];
    };
    let v: Value = serde_json::from_str(&s).expect("known_findings.json parses");
    v["findings"]
        .as_array()
        .cloned()
        .unwrap_or_default()
        .iter()
        .map(|f| Known {
            property: f["property"].as_str().unwrap_or("").to_string(),
            status: f["status"].as_str().unwrap_or("").to_string(),
            signature: f["signature"].as_str().unwrap_or("").to_string(),
            description: f["description"].as_str().unwrap_or("").to_string(),
        })
        .collect()
}

fn orchestrate(a: &[String]) {
    let prop = a[0].clone();
    let mut tier = std::env::var("VERIF_TIER").ok().map(|t| parse_tier(&t)).unwrap_or(Tier::Quick);
    let mut replay: Option<String> = None;
    let mut i = 1;
    while i < a.len() {
        match a[i].as_str() {
            "--tier" => {
                tier = parse_tier(&a[i + 1]);
                i += 2;
            }
            "--replay" => {
                replay = Some(a[i + 1].clone());
                i += 2;
            }
            _ => usage(),
        }
    }
    let meta = lanes::meta(&prop).unwrap_or_else(|| {
        eprintln!("unknown property {}", prop);
        std::process::exit(2);
    });
    let mut seed: u64 = std::env::var("VERIF_SEED").ok().and_then(|s| s.parse().ok()).unwrap_or(1);
    let tier_s = if tier == Tier::Quick { "quick" } else { "thorough" };
    let default_budget = if tier == Tier::Quick { meta.quick_budget_s } else { meta.thorough_budget_s };
    let budget: f64 = std::env::var("VERIF_BUDGET_S").ok().and_then(|s| s.parse().ok()).unwrap_or(default_budget);
    let nshards: u64 = std::env::var("VERIF_SHARDS").ok().and_then(|s| s.parse().ok()).unwrap_or(16);
    let exe = std::env::current_exe().unwrap();
    let run_dir = format!("{}/harness/target/run/{}-{}-{}", verif_dir(), prop, tier_s, std::process::id());
    std::fs::create_dir_all(&run_dir).unwrap();
    let start = Instant::now();

    let mut only: Option<(String, u64)> = None;
    if let Some(path) = &replay {
        let v: Value = serde_json::from_str(&std::fs::read_to_string(path).expect("replay file")).expect("replay json");
        seed = v["seed"].as_u64().unwrap();
        only = Some((v["lane"].as_str().unwrap().to_string(), v["case"].as_u64().unwrap()));
        if v["tier"].as_str() == Some("thorough") {
            tier = Tier::Thorough;
        }
    }
    let tier_s = if tier == Tier::Quick { "quick" } else { "thorough" };

    let mut children = vec![];
    let n = if only.is_some() { 1 } else { nshards };
    for shard in 0..n {
        let out = format!("{}/shard{}.json", run_dir, shard);
        let mut cmd = Command::new(&exe);
        cmd.arg("worker")
            .arg(&prop)
            .arg(tier_s)
            .arg(seed.to_string())
            .arg(shard.to_string())
            .arg(n.to_string())
            .arg(budget.to_string())
            .arg(&out);
        if let Some((l, k)) = &only {
            cmd.arg(l).arg(k.to_string());
        }
        cmd.stdout(Stdio::null()).stderr(Stdio::null()).stdin(Stdio::null());
        let child = cmd.spawn().expect("spawn worker");
        children.push((shard, child, out));
    }
    // generous wall-clock watchdog: its firing is inconclusive, never a violation
    let deadline = Instant::now() + Duration::from_secs_f64(budget * 4.0 + 120.0);
    let mut merged = Cov::default();
    let mut fps: BTreeSet<u64> = BTreeSet::new();
    let mut violations: Vec<Value> = vec![];
    let mut inconclusive: Vec<String> = vec![];
    let mut shards_ok = 0;
    let mut shard_wall: Vec<f64> = vec![];
    for (shard, mut child, out) in children {
        let status = loop {
            match child.try_wait().unwrap() {
                Some(s) => break Some(s),
                None => {
                    if Instant::now() > deadline {
                        let _ = child.kill();
                        let _ = child.wait();
                        break None;
                    }
                    std::thread::sleep(Duration::from_millis(50));
                }
            }
        };
        let data = std::fs::read_to_string(&out).ok().and_then(|s| serde_json::from_str::<Value>(&s).ok());
        match (status, data) {
            (Some(s), Some(v)) if s.success() => {
                shards_ok += 1;
                merged.evaluations += v["evaluations"].as_u64().unwrap_or(0);
                merged.cases += v["cases"].as_u64().unwrap_or(0);
                for f in v["fps"].as_array().unwrap_or(&vec![]) {
                    fps.insert(f.as_u64().unwrap_or(0));
                }
                if let Some(m) = v["counters"].as_object() {
                    for (k, c) in m {
                        let c = c.as_u64().unwrap_or(0);
                        if k.starts_with("max_") {
                            merged.max(k, c);
                        } else {
                            merged.add(k, c);
                        }
                    }
                }
                for (i, s) in v["samples"].as_array().unwrap_or(&vec![]).iter().enumerate() {
                    // prefer the descriptive samples over the per-worker case marker (index 0)
                    if i == 0 && shard != 0 {
                        continue;
                    }
                    if merged.samples.len() < 8 {
                        merged.samples.push(s.clone());
                    }
                }
                match v["exhaustive"].as_bool() {
                    Some(b) => merged.exhaustive = Some(merged.exhaustive.unwrap_or(true) && b),
                    None => {}
                }
                for x in v["violations"].as_array().unwrap_or(&vec![]) {
                    violations.push(x.clone());
                }
                for x in v["inconclusive"].as_array().unwrap_or(&vec![]) {
                    inconclusive.push(x.as_str().unwrap_or("").to_string());
                }
                if let Some(e) = v["harness_error"].as_str() {
                    inconclusive.push(format!("shard {} harness error: {}", shard, e));
                }
                shard_wall.push(v["wall_s"].as_f64().unwrap_or(0.0));
            }
            (st, _) => {
                inconclusive.push(format!("shard {} did not finish ({:?}): inconclusive", shard, st.map(|s| s.code())));
            }
        }
    }
    let _ = std::fs::remove_dir_all(&run_dir);

    // classify violations against the committed known findings (read-only)
    let known = load_known();
    let mut known_hits: BTreeMap<String, (String, u64)> = BTreeMap::new();
    let mut real: Vec<Value> = vec![];
    for v in violations {
        let sig = v["signature"].as_str().unwrap_or("");
        let k = known
            .iter()
            .find(|k| k.status == "known" && k.property == prop && !sig.is_empty() && k.signature == sig);
        match k {
            Some(k) => {
                let e = known_hits.entry(k.signature.clone()).or_insert((k.description.clone(), 0));
                e.1 += 1;
            }
            None => real.push(v),
        }
    }
    let wall = start.elapsed().as_secs_f64();
    let mut exit_code = 0;
    let stdout = std::io::stdout();
    let mut o = stdout.lock();
    for (sig, (desc, n)) in &known_hits {
        writeln!(o, "KNOWN-FINDING: property={} {} [{}; observed {} time(s) in this run]", prop, desc, sig, n).unwrap();
    }
    std::fs::create_dir_all(format!("{}/replays", verif_dir())).unwrap();
    let mut printed = BTreeSet::new();
    for v in real.iter() {
        let lane = v["lane"].as_str().unwrap_or("");
        let case = v["case"].as_u64().unwrap_or(0);
        let path = format!("{}/replays/{}-{}-{}-{}.json", verif_dir(), prop, seed, lane, case);
        if printed.insert(path.clone()) {
            let rep = json!({"property": prop, "seed": seed, "tier": tier_s, "lane": lane, "case": case,
                "summary": v["summary"], "detail": v["detail"],
                "replay_cmd": format!("bin/check {} --replay {}", prop, path)});
            std::fs::write(&path, serde_json::to_vec_pretty(&rep).unwrap()).unwrap();
            writeln!(o, "VIOLATION property={} replay={}", prop, path).unwrap();
            writeln!(o, "  {}", v["summary"].as_str().unwrap_or("")).unwrap();
            exit_code = 1;
        }
    }
    let distinct = fps.len() as u64;
    // evidence
    let mut coverage = json!({
        "evaluations": merged.evaluations,
        "distinct_nontrivial": distinct,
        "rule": meta.rule,
        "samples": merged.samples,
        "cases": merged.cases,
        "observed": merged.counters,
        "shards_completed": shards_ok,
        "shards": n,
        "inconclusive": inconclusive,
        "known_findings_observed": known_hits.iter().map(|(s, (_, n))| json!({"signature": s, "times": n})).collect::<Vec<_>>(),
    });
    if let Some(e) = merged.exhaustive {
        coverage["exhaustive"] = json!(e);
    }
    let ev = json!({
        "property_id": prop,
        "tier": tier_s,
        "seed": seed,
        "level": meta.level,
        "coverage": coverage,
        "assumptions": meta.assumptions,
        "wall_s": wall,
        "violations": real.len(),
    });
    if replay.is_none() {
        std::fs::create_dir_all(format!("{}/evidence", verif_dir())).unwrap();
        std::fs::write(format!("{}/evidence/{}.json", verif_dir(), prop), serde_json::to_vec_pretty(&ev).unwrap()).unwrap();
    }
    writeln!(
        o,
        "{} {} seed={} cases={} evaluations={} distinct_nontrivial={} shards={}/{} inconclusive={} known={} violations={} wall={:.1}s",
        prop, tier_s, seed, merged.cases, merged.evaluations, distinct, shards_ok, n, inconclusive.len(), known_hits.len(), real.len(), wall
    )
    .unwrap();
    for (k, c) in merged.counters.iter() {
        writeln!(o, "    {:<52} {}", k, c).unwrap();
    }
    for x in inconclusive.iter().take(8) {
        writeln!(o, "  INCONCLUSIVE {}", x).unwrap();
    }
    if exit_code == 0 && replay.is_none() && (distinct < 2 || merged.evaluations == 0) {
        writeln!(o, "INCONCLUSIVE property={} the run observed too little to say anything (evaluations={}, distinct={})", prop, merged.evaluations, distinct).unwrap();
        exit_code = 2;
    }
    if exit_code == 0 && replay.is_some() {
        writeln!(o, "replay: no violation reproduced").unwrap();
    }
    std::process::exit(exit_code);
}
