//! C16 — cycles charged follow the published formula and never exceed the maximum.

use crate::cov::{Ctx, Tier};
use crate::gen;
use crate::rng::{fp_str, Rng};
use crate::world::{self, Filter, Out, WorldCfg};
use ic_btc_canister as can;
use ic_btc_interface::{Fees, Network};
use serde_json::json;

fn pick_amount(rng: &mut Rng) -> u128 {
    match rng.below(6) {
        0 => 0,
        1 => rng.range(1, 10) as u128,
        2 => rng.range(1_000, 1_000_000) as u128,
        3 => rng.range(1_000_000, 100_000_000_000) as u128,
        4 => 1u128 << rng.range(40, 90),
        _ => rng.range(1, 1000) as u128 * 1_000_000,
    }
}

fn random_fees(rng: &mut Rng) -> Fees {
    let b1 = pick_amount(rng);
    let b2 = pick_amount(rng);
    let f1 = pick_amount(rng);
    let f2 = pick_amount(rng);
    Fees {
        get_utxos_base: b1,
        get_utxos_cycles_per_ten_instructions: match rng.below(4) { 0 => 0, 1 => 1, 2 => rng.range(2, 50) as u128, _ => pick_amount(rng).min(1 << 50) },
        get_utxos_maximum: b1 + match rng.below(3) { 0 => 0, 1 => rng.range(0, 1000) as u128, _ => pick_amount(rng) },
        get_balance: f1,
        get_balance_maximum: f1 + if rng.chance(1, 2) { 0 } else { pick_amount(rng) },
        get_current_fee_percentiles: f2,
        get_current_fee_percentiles_maximum: f2 + if rng.chance(1, 2) { 0 } else { pick_amount(rng) },
        send_transaction_base: pick_amount(rng),
        send_transaction_per_byte: match rng.below(3) { 0 => 0, 1 => rng.range(1, 100) as u128, _ => pick_amount(rng).min(1 << 60) },
        get_block_headers_base: b2,
        get_block_headers_cycles_per_ten_instructions: match rng.below(4) { 0 => 0, 1 => 1, 2 => rng.range(2, 50) as u128, _ => pick_amount(rng).min(1 << 50) },
        get_block_headers_maximum: b2 + match rng.below(3) { 0 => 0, 1 => rng.range(0, 1000) as u128, _ => pick_amount(rng) },
    }
}

struct Call<'a> {
    name: &'a str,
    maximum: u128,
    /// admissible charges when the call is not refused
    charges: Vec<u128>,
    run: Box<dyn Fn() -> (bool, bool) + 'a>, // (trapped, request-level error)
}

pub fn lane_cycles(ctx: &mut Ctx) {
    let max_cases = if ctx.tier == Tier::Quick { 100_000 } else { 10_000_000 };
    for k in ctx.cases("cycles", max_cases) {
        if !ctx.time_left() {
            break;
        }
        ctx.begin("cycles", k);
        let mut rng = Rng::derive(&[ctx.seed, fp_str("cycles"), k]);
        let net = *rng.pick(&[Network::Regtest, Network::Mainnet, Network::Testnet]);
        let fees = if k % 5 == 0 {
            match net {
                Network::Mainnet => Fees::mainnet(),
                Network::Testnet => Fees::testnet(),
                Network::Regtest => Fees::default(),
            }
        } else {
            random_fees(&mut rng)
        };
        let mut cfg = WorldCfg::new(net, 6);
        cfg.fees = Some(fees.clone());
        world::reset(&cfg);
        let uni = gen::Universe::new(net, &mut rng, 1);
        let good = uni.addrs[0].text.clone();
        let other = gen::Universe::new(if net == Network::Mainnet { Network::Testnet } else { Network::Mainnet }, &mut rng, 1).addrs[2].text.clone();
        for _ in 0..40 {
            let ins: u64 = match rng.below(5) {
                0 => 0,
                1 => rng.range(1, 9),
                2 => rng.range(10, 100_000),
                3 => rng.range(1_000_000, 40_000_000_000),
                _ => u64::MAX / 2,
            };
            let (addr, addr_err) = match rng.below(4) {
                0 => ("not-an-address".to_string(), true),
                1 => (other.clone(), true),
                _ => (good.clone(), false),
            };
            let c = match rng.below(3) {
                0 => None,
                1 => Some(rng.range(0, 1) as u32),
                _ => Some(rng.range(2, 1000) as u32), // too large on a fresh canister
            };
            let c_err = c.map(|x| x > 1).unwrap_or(false);
            // page-token errors are request-level errors too (only the base is charged)
            let page_err: Option<Vec<u8>> = match rng.below(6) {
                0 => {
                    let n = rng.range(0, 71) as usize;
                    Some(rng.bytes(n))
                }
                1 => Some(rng.bytes(72)),
                _ => None,
            };
            let var = |base: u128, rate: u128, max: u128| -> u128 { base + std::cmp::min((ins / 10) as u128 * rate, max - base) };
            let tx_len = rng.range(0, 300) as usize;
            let tx_ok = rng.chance(1, 2);
            let payload: Vec<u8> = if tx_ok {
                // a valid transaction padded to nothing: use a real serialisation
                let t = gen::spend_tx(&[([3u8; 32], 0)], vec![(5, gen::script_p2pkh(&[1u8; 20]))], 0, tx_len.min(70), &mut rng);
                bitcoin::consensus::serialize(&t)
            } else {
                vec![0xab; tx_len]
            };
            let send_fee = fees.send_transaction_base + fees.send_transaction_per_byte * payload.len() as u128;
            let start_h = rng.range(0, 3) as u32;
            let hdr_err = start_h > 0;
            let a2 = addr.clone();
            let a3 = addr.clone();
            let a4 = addr.clone();
            let p2 = payload.clone();
            let calls: Vec<Call> = vec![
                Call {
                    name: "get_utxos",
                    maximum: fees.get_utxos_maximum,
                    charges: if addr_err || c_err || page_err.is_some() { vec![fees.get_utxos_base] } else { vec![var(fees.get_utxos_base, fees.get_utxos_cycles_per_ten_instructions, fees.get_utxos_maximum)] },
                    run: Box::new(move || {
                        let f = match (&page_err, c) { (Some(p), _) => Filter::Page(p.clone()), (None, None) => Filter::None, (None, Some(x)) => Filter::MinConf(x) };
                        match world::get_utxos_update(&a2, net, &f) { Out::Trap(_) => (true, false), Out::Ok(r) => (false, r.is_err()) }
                    }),
                },
                Call {
                    name: "get_utxos_query",
                    maximum: 0,
                    charges: vec![0],
                    run: Box::new(move || match world::get_utxos_query(&a3, net, &Filter::None) { Out::Trap(_) => (true, false), Out::Ok(r) => (false, r.is_err()) }),
                },
                Call {
                    name: "get_balance",
                    maximum: fees.get_balance_maximum,
                    charges: vec![fees.get_balance],
                    run: Box::new(move || match world::get_balance_update(&a4, net, c) { Out::Trap(_) => (true, false), Out::Ok(r) => (false, r.is_err()) }),
                },
                Call {
                    name: "get_balance_query",
                    maximum: 0,
                    charges: vec![0],
                    run: Box::new(|| match world::get_balance_query(&good, net, None) { Out::Trap(_) => (true, false), Out::Ok(r) => (false, r.is_err()) }),
                },
                Call {
                    name: "get_current_fee_percentiles",
                    maximum: fees.get_current_fee_percentiles_maximum,
                    charges: vec![fees.get_current_fee_percentiles],
                    run: Box::new(|| match world::fee_percentiles(net) { Out::Trap(_) => (true, false), Out::Ok(_) => (false, false) }),
                },
                Call {
                    name: "get_block_headers",
                    maximum: fees.get_block_headers_maximum,
                    charges: if hdr_err { vec![fees.get_block_headers_base] } else { vec![var(fees.get_block_headers_base, fees.get_block_headers_cycles_per_ten_instructions, fees.get_block_headers_maximum)] },
                    run: Box::new(move || match world::get_block_headers(start_h, None, net) { Out::Trap(_) => (true, false), Out::Ok(r) => (false, r.is_err()) }),
                },
                Call {
                    name: "send_transaction",
                    maximum: send_fee,
                    // for a malformed payload the statement's clauses pull apart: formula or "only the base"
                    charges: if tx_ok { vec![send_fee] } else { vec![send_fee, fees.send_transaction_base] },
                    run: Box::new(move || match world::send_transaction(p2.clone(), net) { Out::Trap(_) => (true, false), Out::Ok(r) => (false, r.is_err()) }),
                },
            ];
            for call in calls.iter() {
                let is_query = call.name.ends_with("_query");
                let avail: u128 = match rng.below(5) {
                    0 => call.maximum,
                    1 => call.maximum.saturating_sub(1),
                    2 => call.maximum.saturating_add(rng.range(0, 1_000_000) as u128),
                    3 => 0,
                    _ => u128::MAX / 4,
                };
                can::runtime::verif::performance_counter_set(ins);
                can::runtime::verif::set_cycles_available(Some(avail));
                let before = can::runtime::verif::cycles_accepted();
                let (trapped, req_err) = (call.run)();
                let after = can::runtime::verif::cycles_accepted();
                can::runtime::verif::set_cycles_available(None);
                can::runtime::verif::performance_counter_reset();
                let delta = after - before;
                ctx.cov.count(&format!("c16_calls_{}", call.name));
                ctx.cov.eval(Some(fp_str(&format!("c16|{}|{}|{}|{}|{}|{}", call.name, delta, avail >= call.maximum, trapped, req_err, ins))));
                let detail = json!({"endpoint": call.name, "net": gen::net_name(net), "fees": format!("{:?}", fees), "instructions": ins,
                    "available": avail.to_string(), "maximum": call.maximum.to_string(), "charged": delta.to_string(),
                    "admissible": call.charges.iter().map(|c| c.to_string()).collect::<Vec<_>>(), "trapped": trapped, "request_error": req_err});
                if is_query {
                    if delta != 0 {
                        ctx.violation(format!("query variant {} accepted {} cycles", call.name, delta), None, detail);
                    }
                    continue;
                }
                if avail < call.maximum {
                    ctx.cov.count("c16_calls_with_less_than_the_maximum");
                    if !trapped {
                        ctx.violation(format!("{} carried {} cycles, less than the maximum {}, and was not refused", call.name, avail, call.maximum), None, detail);
                    } else if delta != 0 {
                        ctx.violation(format!("{} carried less than the maximum and was refused only after {} cycles had been accepted", call.name, delta), None, detail);
                    }
                    continue;
                }
                if trapped {
                    ctx.violation(format!("{} carried enough cycles ({} >= {}) but trapped", call.name, avail, call.maximum), None, detail);
                    continue;
                }
                if req_err {
                    ctx.cov.count("c16_request_level_errors");
                }
                if !call.charges.contains(&delta) {
                    ctx.violation(
                        format!("{} charged {} cycles, the formula gives {:?} (instructions {}, request error: {})", call.name, delta, call.charges, ins, req_err),
                        None,
                        detail.clone(),
                    );
                }
                if delta > call.maximum {
                    ctx.violation(format!("{} charged {} cycles, more than the maximum {}", call.name, delta, call.maximum), None, detail);
                }
            }
        }
        if ctx.cov.samples.len() < 3 {
            ctx.cov.sample(json!({"net": gen::net_name(net), "fees": format!("{:?}", fees)}));
        }
    }
}

/// Finite comparison of the client's constants with the canister's default fee tables.
pub fn lane_client_table(ctx: &mut Ctx) {
    use ic_btc_interface::{GetBalanceRequest, GetBlockHeadersRequest, GetCurrentFeePercentilesRequest, GetUtxosRequest, SendTransactionRequest};
    use ic_cdk_bitcoin_canister as cdk;
    if ctx.only_case.is_some() && ctx.only_case.as_ref().unwrap().0 != "client_table" {
        return;
    }
    if ctx.shard != 0 {
        return;
    }
    ctx.begin("client_table", 0);
    for net in [Network::Mainnet, Network::Testnet, Network::Regtest] {
        // the default table of a freshly initialised canister on that network
        let mut cfg = WorldCfg::new(net, 6);
        cfg.fees = None;
        world::reset(&cfg);
        let fees = match world::get_config() {
            Out::Ok(c) => c.fees,
            _ => continue,
        };
        let nr = world::net_req(net);
        let check = |name: &str, attached: u128, needed: u128, ctx: &mut Ctx| {
            ctx.cov.count("c16_client_table_cells");
            ctx.cov.eval(Some(fp_str(&format!("c16client|{}|{}|{}", name, gen::net_name(net), needed))));
            if attached < needed {
                ctx.violation(
                    format!("ic-cdk-bitcoin-canister attaches {} cycles to {} on {}, the canister's default maximum is {}", attached, name, gen::net_name(net), needed),
                    None,
                    json!({"endpoint": name, "net": gen::net_name(net)}),
                );
            }
        };
        check("bitcoin_get_utxos", cdk::cost_get_utxos(&GetUtxosRequest { address: String::new(), network: nr, filter: None }), fees.get_utxos_maximum, ctx);
        check("bitcoin_get_balance", cdk::cost_get_balance(&GetBalanceRequest { address: String::new(), network: nr, min_confirmations: None }), fees.get_balance_maximum, ctx);
        check("bitcoin_get_current_fee_percentiles", cdk::cost_get_current_fee_percentiles(&GetCurrentFeePercentilesRequest { network: nr }), fees.get_current_fee_percentiles_maximum, ctx);
        check("bitcoin_get_block_headers", cdk::cost_get_block_headers(&GetBlockHeadersRequest { start_height: 0, end_height: None, network: nr }), fees.get_block_headers_maximum, ctx);
        let mut len = 0usize;
        while len <= 1_000_000 {
            let req = SendTransactionRequest { transaction: vec![0u8; len], network: nr };
            check("bitcoin_send_transaction", cdk::cost_send_transaction(&req), fees.send_transaction_base + fees.send_transaction_per_byte * len as u128, ctx);
            len = if len < 300 { len + 1 } else { len + 997 };
        }
    }
    ctx.cov.exhaustive = Some(true);
}
