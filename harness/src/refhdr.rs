//! Reference implementation of Bitcoin's header rules (GetNextWorkRequired,
//! CalculateNextWorkRequired incl. BIP94, median-time-past, +2h, pow limit), over own 256-bit integers.

use ic_btc_interface::Network;

#[derive(Clone, Copy, Debug, PartialEq, Eq)]
pub struct U256(pub [u64; 4]); // little-endian limbs

impl U256 {
    pub const ZERO: U256 = U256([0; 4]);
    pub fn from_u64(x: u64) -> U256 {
        U256([x, 0, 0, 0])
    }
    pub fn bits(&self) -> u32 {
        for i in (0..4).rev() {
            if self.0[i] != 0 {
                return 64 * i as u32 + (64 - self.0[i].leading_zeros());
            }
        }
        0
    }
    pub fn shl(&self, n: u32) -> U256 {
        if n >= 256 {
            return U256::ZERO;
        }
        let mut out = [0u64; 4];
        let limbs = (n / 64) as usize;
        let bits = n % 64;
        for i in (0..4).rev() {
            if i >= limbs {
                let mut v = self.0[i - limbs] << bits;
                if bits > 0 && i > limbs {
                    v |= self.0[i - limbs - 1] >> (64 - bits);
                }
                out[i] = v;
            }
        }
        U256(out)
    }
    pub fn shr(&self, n: u32) -> U256 {
        if n >= 256 {
            return U256::ZERO;
        }
        let mut out = [0u64; 4];
        let limbs = (n / 64) as usize;
        let bits = n % 64;
        for i in 0..4 {
            if i + limbs < 4 {
                let mut v = self.0[i + limbs] >> bits;
                if bits > 0 && i + limbs + 1 < 4 {
                    v |= self.0[i + limbs + 1] << (64 - bits);
                }
                out[i] = v;
            }
        }
        U256(out)
    }
    /// wrapping multiplication by a 64-bit value (like arith_uint256)
    pub fn mul_u64(&self, m: u64) -> U256 {
        let mut out = [0u64; 4];
        let mut carry: u128 = 0;
        for i in 0..4 {
            let v = self.0[i] as u128 * m as u128 + carry;
            out[i] = v as u64;
            carry = v >> 64;
        }
        U256(out)
    }
    pub fn div_u64(&self, d: u64) -> U256 {
        let mut out = [0u64; 4];
        let mut rem: u128 = 0;
        for i in (0..4).rev() {
            let cur = (rem << 64) | self.0[i] as u128;
            out[i] = (cur / d as u128) as u64;
            rem = cur % d as u128;
        }
        U256(out)
    }
    pub fn gt(&self, o: &U256) -> bool {
        for i in (0..4).rev() {
            if self.0[i] != o.0[i] {
                return self.0[i] > o.0[i];
            }
        }
        false
    }
    pub fn to_be_bytes(&self) -> [u8; 32] {
        let mut b = [0u8; 32];
        for i in 0..4 {
            b[(3 - i) * 8..(4 - i) * 8].copy_from_slice(&self.0[i].to_be_bytes());
        }
        b
    }
    pub fn from_le_bytes(b: &[u8; 32]) -> U256 {
        let mut l = [0u64; 4];
        for i in 0..4 {
            let mut a = [0u8; 8];
            a.copy_from_slice(&b[i * 8..(i + 1) * 8]);
            l[i] = u64::from_le_bytes(a);
        }
        U256(l)
    }
}

/// arith_uint256::SetCompact. Returns (value, negative, overflow).
pub fn set_compact(c: u32) -> (U256, bool, bool) {
    let size = c >> 24;
    let mut word = c & 0x007f_ffff;
    let v = if size <= 3 {
        word >>= 8 * (3 - size);
        U256::from_u64(word as u64)
    } else {
        U256::from_u64(word as u64).shl(8 * (size - 3))
    };
    let negative = word != 0 && (c & 0x0080_0000) != 0;
    let overflow = word != 0 && (size > 34 || (word > 0xff && size > 33) || (word > 0xffff && size > 32));
    (v, negative, overflow)
}

/// arith_uint256::GetCompact
pub fn get_compact(v: &U256) -> u32 {
    let mut size = (v.bits() + 7) / 8;
    let mut compact: u32 = if size <= 3 {
        (v.0[0] << (8 * (3 - size))) as u32
    } else {
        v.shr(8 * (size - 3)).0[0] as u32
    };
    if compact & 0x0080_0000 != 0 {
        compact >>= 8;
        size += 1;
    }
    compact | (size << 24)
}

pub struct NetParams {
    pub pow_limit: U256,
    pub allow_min_difficulty: bool,
    pub no_retargeting: bool,
    pub bip94: bool,
}

pub fn params(net: Network) -> NetParams {
    // powLimit values of chainparams.cpp
    let ones = |zero_bits: u32| -> U256 { U256([u64::MAX; 4]).shr(zero_bits) };
    match net {
        Network::Mainnet => NetParams { pow_limit: ones(32), allow_min_difficulty: false, no_retargeting: false, bip94: false },
        // the canister's "testnet" is testnet4
        Network::Testnet => NetParams { pow_limit: ones(32), allow_min_difficulty: true, no_retargeting: false, bip94: true },
        Network::Regtest => NetParams { pow_limit: ones(1), allow_min_difficulty: true, no_retargeting: true, bip94: false },
    }
}

pub const INTERVAL: u32 = 2016;
pub const TARGET_TIMESPAN: i64 = 14 * 24 * 60 * 60;
pub const TARGET_SPACING: i64 = 600;

/// The chain below the candidate: (time, bits) by height, heights `lo..=prev_height`.
pub struct Hist2<'a> {
    pub lo: u32,
    pub rows: &'a [(u32, u32)],
}

impl<'a> Hist2<'a> {
    pub fn at(&self, h: u32) -> Option<(u32, u32)> {
        if h < self.lo {
            return None;
        }
        self.rows.get((h - self.lo) as usize).cloned()
    }
    pub fn prev_height(&self) -> u32 {
        self.lo + self.rows.len() as u32 - 1
    }
}

/// GetNextWorkRequired: required compact bits for a block at prev_height+1 with the given time.
pub fn next_work_required(net: Network, hist: &Hist2, block_time: u32) -> u32 {
    let p = params(net);
    let limit_compact = get_compact(&p.pow_limit);
    let ph = hist.prev_height();
    let (ptime, pbits) = hist.at(ph).unwrap();
    if (ph + 1) % INTERVAL != 0 {
        if p.allow_min_difficulty {
            if block_time as i64 > ptime as i64 + TARGET_SPACING * 2 {
                return limit_compact;
            }
            let mut h = ph;
            loop {
                let (_, b) = hist.at(h).unwrap();
                if h == 0 || h % INTERVAL == 0 || b != limit_compact {
                    return b;
                }
                h -= 1;
            }
        }
        return pbits;
    }
    // retarget
    if p.no_retargeting {
        return pbits;
    }
    let first_h = ph + 1 - INTERVAL;
    let (ftime, fbits) = hist.at(first_h).unwrap();
    let mut actual = ptime as i64 - ftime as i64;
    if actual < TARGET_TIMESPAN / 4 {
        actual = TARGET_TIMESPAN / 4;
    }
    if actual > TARGET_TIMESPAN * 4 {
        actual = TARGET_TIMESPAN * 4;
    }
    let base = if p.bip94 { fbits } else { pbits };
    let (bn, _, _) = set_compact(base);
    let mut bn = bn.mul_u64(actual as u64).div_u64(TARGET_TIMESPAN as u64);
    if bn.gt(&p.pow_limit) {
        bn = p.pow_limit;
    }
    get_compact(&bn)
}

/// median of the up to 11 timestamps ending at prev_height
pub fn median_time_past(hist: &Hist2) -> u32 {
    let ph = hist.prev_height();
    let mut t = vec![];
    let mut h = ph as i64;
    while t.len() < 11 && h >= 0 {
        match hist.at(h as u32) {
            Some((time, _)) => t.push(time),
            None => break,
        }
        h -= 1;
    }
    t.sort();
    t[t.len() / 2]
}

#[derive(Debug, Clone, PartialEq)]
pub enum Verdict {
    Accept,
    Reject(&'static str),
}

/// Full header verdict. `hash_le` is the header hash as a little-endian 256-bit number.
pub fn header_verdict(net: Network, hist: &Hist2, time: u32, bits: u32, hash_le: &[u8; 32], now: u64) -> Verdict {
    if time <= median_time_past(hist) {
        return Verdict::Reject("timestamp not greater than the median of the preceding timestamps");
    }
    if time as u64 > now + 2 * 60 * 60 {
        return Verdict::Reject("timestamp more than two hours past the current time");
    }
    let p = params(net);
    let (target, neg, ovf) = set_compact(bits);
    if neg || ovf || target == U256::ZERO || target.gt(&p.pow_limit) {
        return Verdict::Reject("declared target exceeds the network maximum (or is not a valid target)");
    }
    let hash = U256::from_le_bytes(hash_le);
    if hash.gt(&target) {
        return Verdict::Reject("hash does not meet the declared target");
    }
    let required = next_work_required(net, hist, time);
    let (rt, _, _) = set_compact(required);
    if rt != target {
        return Verdict::Reject("declared target is not the target consensus requires at this height");
    }
    Verdict::Accept
}
