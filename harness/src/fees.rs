//! C15 — fee percentile oracle with stickiness (answers pinned per tip) and may-sets.

use crate::cov::Ctx;
use crate::hist::Hist;
use crate::model::{nearest_rank, Model};
use crate::parse::H;
use crate::world::{self, Out};
use serde_json::json;

#[derive(Default)]
pub struct FeeTracker {
    pub tips: Vec<H>,
    /// answers admissible for the current tip (one per admissible population observed at a boundary)
    pub admissible: Vec<Vec<u64>>,
    pub pinned: Option<Vec<u64>>,
    /// answers that may still sit in the cache from earlier tips
    pub previous: Vec<Vec<u64>>,
    pub tip_changes: u64,
    pub populations_seen: u64,
    pub max_population: usize,
    pub ambiguous_cut: u64,
}

const NUM_TX: usize = 10_000;

/// `cap`: beyond it the OLDEST entry is dropped. Only the list of answers possibly left over from
/// earlier tips is capped (the cache can only hold a recent one); the admissible list for the
/// current tip is never truncated.
fn push_unique_capped(v: &mut Vec<Vec<u64>>, x: Vec<u64>, cap: usize) {
    if !v.contains(&x) {
        v.push(x);
        if v.len() > cap {
            v.remove(0);
        }
    }
}

fn push_unique(v: &mut Vec<Vec<u64>>, x: Vec<u64>) {
    push_unique_capped(v, x, usize::MAX);
}

/// Admissible populations for the chain ending in the best tip: most recent up to 10,000
/// non-coinbase transactions of the unstable best-chain blocks, tip first. Open choices:
/// whether the anchor counts as an unstable block, and which transactions of the oldest,
/// partially counted block are taken.
pub fn populations(m: &mut Model, chain: &[H]) -> (Vec<Vec<u64>>, bool) {
    let mut out: Vec<Vec<u64>> = vec![];
    let mut cut_ambiguous = false;
    for with_anchor in [true, false] {
        let blocks: Vec<H> = if with_anchor { chain.to_vec() } else { chain[1..].to_vec() };
        for take_first in [true, false] {
            let mut pop: Vec<u64> = vec![];
            for b in blocks.iter().rev() {
                if pop.len() >= NUM_TX {
                    break;
                }
                let rates = m.fee_rates_of(b);
                let room = NUM_TX - pop.len();
                if rates.len() <= room {
                    pop.extend(rates);
                } else {
                    cut_ambiguous = true;
                    if take_first {
                        pop.extend_from_slice(&rates[..room]);
                    } else {
                        pop.extend_from_slice(&rates[rates.len() - room..]);
                    }
                }
            }
            pop.sort();
            if !out.contains(&pop) {
                out.push(pop);
            }
        }
    }
    (out, cut_ambiguous)
}

impl FeeTracker {
    /// To be called at every message boundary.
    pub fn boundary(&mut self, m: &mut Model) {
        let bests = m.best_chains();
        let tips: Vec<H> = bests.iter().map(|c| *c.last().unwrap()).collect();
        if tips != self.tips {
            // whatever was admissible for the old tip may still be cached
            let mut prev = std::mem::take(&mut self.admissible);
            if let Some(p) = self.pinned.take() {
                prev.push(p);
            }
            for p in prev {
                push_unique_capped(&mut self.previous, p, 48);
            }
            self.tips = tips.clone();
            self.tip_changes += 1;
        }
        for ch in bests.iter() {
            let (pops, amb) = populations(m, ch);
            if amb {
                self.ambiguous_cut += 1;
            }
            for p in pops {
                self.populations_seen += 1;
                self.max_population = self.max_population.max(p.len());
                if p.is_empty() {
                    // previous answer is kept; with no previous answer: nothing
                    if self.previous.is_empty() {
                        push_unique(&mut self.admissible, vec![]);
                    }
                    for q in self.previous.clone() {
                        push_unique(&mut self.admissible, q);
                    }
                } else {
                    push_unique(&mut self.admissible, nearest_rank(&p));
                }
            }
        }
    }

    pub fn check(&mut self, h: &Hist, ctx: &mut Ctx) {
        let net = h.net();
        let ans = match world::fee_percentiles(net) {
            Out::Ok(a) => a,
            Out::Trap(m) => {
                ctx.violation(format!("get_current_fee_percentiles trapped: {}", m), None, json!({"log": h.log}));
                return;
            }
        };
        ctx.cov.count("c15_answers_checked");
        if !ans.is_empty() {
            if ans.len() != 101 {
                ctx.violation(format!("{} percentiles returned, 101 expected", ans.len()), None, json!({"log": h.log}));
                return;
            }
            if !ans.windows(2).all(|w| w[0] <= w[1]) {
                ctx.violation("percentiles are not non-decreasing".into(), None, json!({"log": h.log, "answer": ans}));
                return;
            }
        }
        let nontrivial = !ans.is_empty();
        ctx.cov.eval(if nontrivial {
            Some(crate::rng::fp_str(&format!("{:?}", ans)))
        } else {
            None
        });
        if let Some(p) = &self.pinned {
            ctx.cov.count("c15_cache_hits_checked");
            if *p != ans {
                ctx.violation(
                    "fee percentiles changed although the tip did not".into(),
                    None,
                    json!({"log": h.log, "before": summary(p), "now": summary(&ans)}),
                );
            }
            return;
        }
        if self.admissible.contains(&ans) {
            self.pinned = Some(ans.clone());
            if ctx.cov.samples.len() < 3 && nontrivial {
                ctx.cov.sample(json!({"percentiles_0_50_100": [ans[0], ans[50], ans[100]], "population_max": self.max_population,
                    "tree": format!("{:?}", h.shape_sig())}));
            }
        } else {
            ctx.violation(
                format!(
                    "fee percentiles are not the nearest-rank percentiles of any admissible population ({} admissible answers)",
                    self.admissible.len()
                ),
                None,
                json!({"log": h.log, "answer": summary(&ans),
                       "admissible": self.admissible.iter().map(|a| summary(a)).collect::<Vec<_>>()}),
            );
            // resynchronise to keep the rest of the case meaningful
            self.pinned = Some(ans);
        }
    }
}

fn summary(a: &[u64]) -> serde_json::Value {
    if a.is_empty() {
        json!([])
    } else {
        json!({"p0": a[0], "p1": a[1], "p25": a[25], "p50": a[50], "p75": a[75], "p99": a[99], "p100": a[100]})
    }
}

/// Populations of more than 10,000 fee-paying transactions (the cut falls inside a block).
pub fn lane_bigfees(ctx: &mut Ctx) {
    use crate::gen;
    use crate::hist::{HistCfg, Palette, Path};
    use crate::rng::{fp_str, Rng};
    use ic_btc_interface::Network;
    let max_cases = if ctx.tier == crate::cov::Tier::Quick { 4 } else { 100_000 };
    for k in ctx.cases("bigfees", max_cases) {
        if !ctx.time_left() {
            break;
        }
        ctx.begin("bigfees", k);
        let rng = Rng::derive(&[ctx.seed, fp_str("bigfees"), k]);
        let cfg = HistCfg {
            net: Network::Regtest,
            path: Path::Insert,
            threshold: 30,
            n_each: 1,
            max_txs: 2,
            fork_pct: 0,
            palette: Palette::One,
            fanout_pct: 0,
            share_pct: 0,
            lazy_fees: k % 2 == 0,
            sync_gate: false,
            ingest_pct: 100,
            fee_txs: true,
        };
        let mut h = Hist::new(cfg, rng);
        h.fee = Some(FeeTracker::default());
        h.fee_boundary();
        let per_block = h.rng.range(2200, 3600) as usize;
        let n_blocks = 12_000 / per_block + 2;
        let mut ok = true;
        for bi in 0..n_blocks {
            // a block whose coinbase funds the next block's transactions
            let tip = *h.model.best_chains()[0].last().unwrap();
            let height = h.model.blocks[&tip].height + 1;
            h.uniq += 1;
            let script = h.uni.addrs[bi % h.uni.addrs.len()].script.clone();
            let outs: Vec<(u64, Vec<u8>)> = (0..per_block).map(|_| (100_000, script.clone())).collect();
            let cb = gen::coinbase_tx(height, h.uniq, outs);
            use bitcoin::hashes::Hash;
            let cbid = cb.compute_txid().to_byte_array();
            let time = h.model.blocks[&tip].time + 100;
            let b = gen::make_block(h.net(), tip, time, vec![cb], true);
            if h.deliver(b, 1, ctx).is_none() || !h.opportunity(ctx) {
                ok = false;
                break;
            }
            // the spending block
            let tip = *h.model.best_chains()[0].last().unwrap();
            h.uniq += 1;
            let mut txs = vec![gen::coinbase_tx(height + 1, h.uniq, vec![(1, script.clone())])];
            for i in 0..per_block {
                let fee = h.rng.range(0, 60_000);
                let w = if h.rng.chance(1, 2) { 1 } else { 0 };
                let sig = if w == 0 { h.rng.range(0, 70) as usize } else { 0 };
                txs.push(gen::spend_tx(&[(cbid, i as u32)], vec![(100_000 - fee, script.clone())], w, sig, &mut h.rng));
            }
            let b = gen::make_block(h.net(), tip, time + 100, txs, true);
            if h.deliver(b, 1, ctx).is_none() || !h.opportunity(ctx) {
                ok = false;
                break;
            }
            if let Some(mut f) = h.fee.take() {
                f.check(&h, ctx);
                f.check(&h, ctx);
                h.fee = Some(f);
            }
            if !ctx.time_left() {
                break;
            }
        }
        if ok {
            if let Some(f) = &h.fee {
                ctx.cov.max("max_fee_population", f.max_population as u64);
                ctx.cov.add("c15_ambiguous_cut_inside_block", f.ambiguous_cut);
                ctx.cov.add("c15_tip_changes", f.tip_changes);
            }
            ctx.cov.count("c15_histories_with_more_than_10000_transactions");
        }
        if let Some(d) = &h.desync {
            if ctx.cov.violations.iter().all(|v| v.case != k || v.lane != "bigfees") {
                ctx.inconclusive(format!("history abandoned: {}", d));
            }
        }
    }
}
