//! C17 / C18 — watchdog decision and HTTP transforms.

use crate::cov::{Ctx, Tier};
use crate::rng::{fp_str, Rng};
use crate::world::{self, Out};
use candid::Nat;
use ic_btc_interface::Flag;
use ic_management_canister_types::{HttpHeader, HttpRequestResult, TransformArgs};
use serde_json::json;
use watchdog::verif_hooks as wd;

// ---------------------------------------------------------------- a tiny JSON document model
// (own serialiser: member order and whitespace are under the generator's control)

#[derive(Clone, Debug, PartialEq)]
pub enum Doc {
    Null,
    Bool(bool),
    Num(String),
    Str(String),
    Arr(Vec<Doc>),
    Obj(Vec<(String, Doc)>),
}

fn esc(s: &str) -> String {
    let mut o = String::from("\"");
    for c in s.chars() {
        match c {
            '"' => o.push_str("\\\""),
            '\\' => o.push_str("\\\\"),
            '\n' => o.push_str("\\n"),
            c if (c as u32) < 0x20 => o.push_str(&format!("\\u{:04x}", c as u32)),
            c => o.push(c),
        }
    }
    o.push('"');
    o
}

impl Doc {
    pub fn ser(&self, ws: &mut dyn FnMut() -> String) -> String {
        match self {
            Doc::Null => "null".into(),
            Doc::Bool(b) => b.to_string(),
            Doc::Num(n) => n.clone(),
            Doc::Str(s) => esc(s),
            Doc::Arr(v) => {
                let mut o = String::from("[");
                o.push_str(&ws());
                for (i, x) in v.iter().enumerate() {
                    if i > 0 {
                        o.push(',');
                        o.push_str(&ws());
                    }
                    o.push_str(&x.ser(ws));
                }
                o.push_str(&ws());
                o.push(']');
                o
            }
            Doc::Obj(v) => {
                let mut o = String::from("{");
                o.push_str(&ws());
                for (i, (k, x)) in v.iter().enumerate() {
                    if i > 0 {
                        o.push(',');
                        o.push_str(&ws());
                    }
                    o.push_str(&esc(k));
                    o.push_str(&ws());
                    o.push(':');
                    o.push_str(&ws());
                    o.push_str(&x.ser(ws));
                }
                o.push_str(&ws());
                o.push('}');
                o
            }
        }
    }
    pub fn compact(&self) -> String {
        self.ser(&mut || String::new())
    }
    /// shuffles member order at every level and appends freshly named members / array elements
    pub fn variant(&self, rng: &mut Rng, extra: bool) -> Doc {
        match self {
            Doc::Arr(v) => {
                let mut w: Vec<Doc> = v.iter().map(|x| x.variant(rng, extra)).collect();
                if extra && rng.chance(1, 2) {
                    w.push(benign_leaf(rng));
                }
                Doc::Arr(w)
            }
            Doc::Obj(v) => {
                let mut w: Vec<(String, Doc)> = v.iter().map(|(k, x)| (k.clone(), x.variant(rng, extra))).collect();
                if extra {
                    for _ in 0..rng.range(0, 2) {
                        w.push((format!("zz_extra_{}", rng.below(1_000_000)), benign_leaf(rng)));
                    }
                }
                rng.shuffle(&mut w);
                Doc::Obj(w)
            }
            x => x.clone(),
        }
    }
    /// paths to all leaves
    pub fn leaves(&self, prefix: Vec<usize>, out: &mut Vec<Vec<usize>>) {
        match self {
            Doc::Arr(v) => {
                for (i, x) in v.iter().enumerate() {
                    let mut p = prefix.clone();
                    p.push(i);
                    x.leaves(p, out);
                }
            }
            Doc::Obj(v) => {
                for (i, (_, x)) in v.iter().enumerate() {
                    let mut p = prefix.clone();
                    p.push(i);
                    x.leaves(p, out);
                }
            }
            _ => out.push(prefix),
        }
    }
    pub fn replace(&self, path: &[usize], with: &Doc) -> Doc {
        if path.is_empty() {
            return with.clone();
        }
        match self {
            Doc::Arr(v) => Doc::Arr(v.iter().enumerate().map(|(i, x)| if i == path[0] { x.replace(&path[1..], with) } else { x.clone() }).collect()),
            Doc::Obj(v) => Doc::Obj(
                v.iter()
                    .enumerate()
                    .map(|(i, (k, x))| (k.clone(), if i == path[0] { x.replace(&path[1..], with) } else { x.clone() }))
                    .collect(),
            ),
            x => x.clone(),
        }
    }
}

/// values for *extra* members: only what every JSON parser accepts (a number like 1e400 is
/// syntactically valid JSON but makes common parsers reject the whole document; such values are
/// exercised by the typed-mutation family, where only totality and canonical shape are demanded)
fn benign_leaf(rng: &mut Rng) -> Doc {
    loop {
        let l = random_leaf(rng);
        if l != Doc::Num("1e400".into()) {
            return l;
        }
    }
}

fn random_leaf(rng: &mut Rng) -> Doc {
    match rng.below(9) {
        0 => Doc::Null,
        1 => Doc::Bool(rng.chance(1, 2)),
        2 => Doc::Num(rng.range(0, 900_000).to_string()),
        3 => Doc::Num(format!("-{}", rng.range(1, 900_000))),
        4 => Doc::Num(format!("{}.5", rng.range(0, 900_000))),
        5 => Doc::Num("18446744073709551616".into()),
        6 => Doc::Num("1e400".into()),
        7 => Doc::Str(format!("{}", rng.range(0, 900_000))),
        _ => Doc::Obj(vec![("height".into(), Doc::Num(rng.range(0, 99).to_string()))]),
    }
}

/// Per-explorer shaped payloads (seeds; the relations checked are black-box).
pub fn shaped(height: &Doc) -> Vec<(&'static str, Doc)> {
    let s = |x: &str| Doc::Str(x.to_string());
    vec![
        (
            "bitcore",
            Doc::Arr(vec![Doc::Obj(vec![
                ("chain".into(), s("BTC")),
                ("network".into(), s("mainnet")),
                ("hash".into(), s("0000000000000000000aaf3ab8b1b8a1d0d5a2a2bbd2b1f1b7a0d5a6b1c0e0f0")),
                ("height".into(), height.clone()),
                ("time".into(), s("2023-03-30T10:00:00.000Z")),
                ("transactionCount".into(), Doc::Num("2500".into())),
            ])]),
        ),
        (
            "blockchair",
            Doc::Obj(vec![
                (
                    "data".into(),
                    Doc::Obj(vec![
                        ("blocks".into(), Doc::Num("783772".into())),
                        ("best_block_height".into(), height.clone()),
                        ("best_block_hash".into(), s("00000000000000000001b2a3")),
                        ("difficulty".into(), Doc::Num("46843400286276.55".into())),
                    ]),
                ),
                ("context".into(), Doc::Obj(vec![("code".into(), Doc::Num("200".into())), ("state".into(), Doc::Num("783771".into()))])),
            ]),
        ),
        (
            "blockcypher",
            Doc::Obj(vec![
                ("name".into(), s("BTC.main")),
                ("height".into(), height.clone()),
                ("hash".into(), s("0000000000000000000327ad9a4ff9a4")),
                ("peer_count".into(), Doc::Num("240".into())),
                ("last_fork_height".into(), Doc::Num("781487".into())),
            ]),
        ),
        ("plain", height.clone()),
    ]
}

fn is_canonical(body: &[u8]) -> bool {
    if body.is_empty() {
        return true;
    }
    let Ok(t) = std::str::from_utf8(body) else { return false };
    let Some(inner) = t.strip_prefix("{\"height\":").and_then(|x| x.strip_suffix("}")) else { return false };
    if inner == "null" {
        return true;
    }
    if inner.is_empty() || !inner.bytes().all(|b| b.is_ascii_digit()) {
        return false;
    }
    if inner.len() > 1 && inner.starts_with('0') {
        return false;
    }
    inner.parse::<u64>().is_ok()
}

fn transform(cfg: &wd::HttpRequestConfig, status: Nat, headers: Vec<HttpHeader>, body: Vec<u8>) -> Out<HttpRequestResult> {
    world::guarded(|| cfg.transform(TransformArgs { response: HttpRequestResult { status, headers, body }, context: vec![] }))
}

fn random_headers(rng: &mut Rng) -> Vec<HttpHeader> {
    (0..rng.range(0, 4))
        .map(|_| HttpHeader {
            name: (*rng.pick(&["Date", "Set-Cookie", "X-Request-Id", "Content-Type", "CF-RAY"])).to_string(),
            value: hex::encode(rng.bytes(6)),
        })
        .collect()
}

pub fn lane_transforms(ctx: &mut Ctx) {
    let endpoints = wd::endpoints();
    let max_cases = if ctx.tier == Tier::Quick { 5_000_000 } else { 500_000_000 };
    for k in ctx.cases("transform", max_cases) {
        if !ctx.time_left() {
            break;
        }
        ctx.begin("transform", k);
        let mut rng = Rng::derive(&[ctx.seed, fp_str("transform"), k]);
        let (ename, cfg) = &endpoints[(k as usize) % endpoints.len()];
        let h = rng.range(0, 900_000);
        let height_leaf = match rng.below(8) {
            0 => Doc::Null,
            1 => Doc::Str(h.to_string()),
            2 => Doc::Num(format!("-{}", h)),
            3 => Doc::Num(format!("{}.0", h)),
            4 => Doc::Num("18446744073709551615".into()),
            5 => Doc::Num("18446744073709551616".into()),
            _ => Doc::Num(h.to_string()),
        };
        for (shape, doc) in shaped(&height_leaf) {
            let status: Nat = match rng.below(6) {
                0 => Nat::from(rng.range(0, 599)),
                1 => Nat::from(u128::MAX),
                2 => Nat::from(404u32),
                _ => Nat::from(200u32),
            };
            let body = doc.compact().into_bytes();
            let base = transform(cfg, status.clone(), random_headers(&mut rng), body.clone());
            ctx.cov.count("c18_transform_calls");
            ctx.cov.count(&format!("c18_endpoint_{}", ename));
            let detail = json!({"endpoint": ename, "shape": shape, "status": status.to_string(), "body": String::from_utf8_lossy(&body)});
            let base = match base {
                Out::Trap(m) => {
                    ctx.violation(format!("transform of {} trapped: {}", ename, m), None, detail);
                    continue;
                }
                Out::Ok(r) => r,
            };
            let non_empty = !base.body.is_empty();
            ctx.cov.eval(if non_empty { Some(fp_str(&format!("c18|{}|{}|{}", ename, shape, String::from_utf8_lossy(&base.body)))) } else { None });
            if non_empty {
                ctx.cov.count("c18_outputs_with_a_height");
            }
            if !base.headers.is_empty() {
                ctx.violation(format!("transform of {} kept {} header(s)", ename, base.headers.len()), None, detail.clone());
            }
            if base.status != status {
                ctx.violation(format!("transform of {} changed the status {} -> {}", ename, status, base.status), None, detail.clone());
            }
            if !is_canonical(&base.body) {
                ctx.violation(
                    format!("transform of {} produced a body that is neither empty nor the canonical height object: {:?}", ename, String::from_utf8_lossy(&base.body)),
                    None,
                    detail.clone(),
                );
            }
            // relations: headers, whitespace, member order, extra members
            for v in 0..4 {
                let variant_doc = if shape == "plain" { doc.clone() } else { doc.variant(&mut rng, v >= 2) };
                let mut wsr = Rng::new(rng.next_u64());
                let text = if shape == "plain" || v % 2 == 0 {
                    variant_doc.compact()
                } else {
                    variant_doc.ser(&mut || (*wsr.pick(&["", " ", "\n", "\t", "  ", "\r\n"])).to_string())
                };
                let r = transform(cfg, status.clone(), random_headers(&mut rng), text.clone().into_bytes());
                ctx.cov.count("c18_relation_variants");
                match r {
                    Out::Trap(m) => ctx.violation(format!("transform of {} trapped on a variant: {}", ename, m), None, json!({"body": text})),
                    Out::Ok(r2) => {
                        if r2.body != base.body || r2.status != base.status || !r2.headers.is_empty() {
                            ctx.violation(
                                format!(
                                    "transform of {} is not invariant under header / whitespace / member order / extra members: {:?} vs {:?}",
                                    ename, String::from_utf8_lossy(&base.body), String::from_utf8_lossy(&r2.body)
                                ),
                                None,
                                json!({"endpoint": ename, "original": String::from_utf8_lossy(&body), "variant": text}),
                            );
                        }
                    }
                }
            }
            // typed mutation of every leaf: still canonical
            let mut leaves = vec![];
            doc.leaves(vec![], &mut leaves);
            for path in leaves {
                let m = doc.replace(&path, &random_leaf(&mut rng));
                let r = transform(cfg, Nat::from(200u32), vec![], m.compact().into_bytes());
                ctx.cov.count("c18_leaf_mutations");
                match r {
                    Out::Trap(msg) => ctx.violation(format!("transform of {} trapped on a typed mutation: {}", ename, msg), None, json!({"body": m.compact()})),
                    Out::Ok(r2) => {
                        if !is_canonical(&r2.body) || !r2.headers.is_empty() {
                            ctx.violation(
                                format!("transform of {} produced a non-canonical body {:?}", ename, String::from_utf8_lossy(&r2.body)),
                                None,
                                json!({"body": m.compact()}),
                            );
                        }
                    }
                }
            }
        }
        // raw byte bodies: digits, signs, spaces, overflow, invalid UTF-8, truncated JSON, empty
        for _ in 0..12 {
            let body: Vec<u8> = match rng.below(10) {
                0 => vec![],
                1 => format!(" {}\n", rng.range(0, 900_000)).into_bytes(),
                2 => format!("+{}", rng.range(0, 900_000)).into_bytes(),
                3 => format!("-{}", rng.range(0, 900_000)).into_bytes(),
                4 => b"18446744073709551616".to_vec(),
                5 => vec![0xff, 0xfe, 0x31, 0x32],
                6 => b"{\"height\": 12".to_vec(),
                7 => format!("0{}", rng.range(0, 900_000)).into_bytes(),
                8 => {
                    let n = rng.range(0, 64) as usize;
                    rng.bytes(n)
                }
                _ => format!("{}", rng.range(0, 900_000)).into_bytes(),
            };
            let status = if rng.chance(1, 5) { Nat::from(rng.range(0, 599)) } else { Nat::from(200u32) };
            let r = transform(cfg, status.clone(), random_headers(&mut rng), body.clone());
            ctx.cov.count("c18_raw_bodies");
            match r {
                Out::Trap(m) => ctx.violation(format!("transform of {} trapped on raw bytes: {}", ename, m), None, json!({"body": hex::encode(&body)})),
                Out::Ok(r2) => {
                    if !is_canonical(&r2.body) || !r2.headers.is_empty() || r2.status != status {
                        ctx.violation(
                            format!("transform of {} on raw bytes: body {:?}, {} headers, status {}", ename, String::from_utf8_lossy(&r2.body), r2.headers.len(), r2.status),
                            None,
                            json!({"body": hex::encode(&body)}),
                        );
                    }
                }
            }
        }
        if ctx.cov.samples.len() < 3 {
            ctx.cov.sample(json!({"endpoint": ename, "height_leaf": format!("{:?}", height_leaf)}));
        }
    }
}

// ---------------------------------------------------------------- C17

/// finds, per endpoint, a payload shape from which the real transform extracts the height
fn shape_for(cfg: &wd::HttpRequestConfig) -> Option<&'static str> {
    let probe = 424_242u64;
    for (name, doc) in shaped(&Doc::Num(probe.to_string())) {
        if let Out::Ok(r) = transform(cfg, Nat::from(200u32), vec![], doc.compact().into_bytes()) {
            if r.body == format!("{{\"height\":{}}}", probe).into_bytes() {
                return Some(name);
            }
        }
    }
    None
}

#[derive(Clone, Debug, PartialEq)]
enum Fetch {
    Height(u64),
    Non200,
    TransportError,
    Garbage,
    NullHeight,
}

fn expected_decision(heights: &[u64], canister: Option<u64>, min: usize, behind: u64, ahead: u64) -> Vec<Option<Flag>> {
    // returns the admissible decisions (more than one only when the median of an even count is not an integer)
    let Some(c) = canister else { return vec![None] };
    if heights.len() < min || heights.is_empty() {
        return vec![None];
    }
    let mut s = heights.to_vec();
    s.sort();
    let n = s.len();
    let medians: Vec<u64> = if n % 2 == 1 {
        vec![s[n / 2]]
    } else {
        let (a, b) = (s[n / 2 - 1], s[n / 2]);
        if (a + b) % 2 == 0 { vec![(a + b) / 2] } else { vec![(a + b) / 2, (a + b) / 2 + 1] }
    };
    let mut out = vec![];
    for m in medians {
        let lo = m.saturating_sub(behind);
        let hi = m + ahead;
        let within = s.iter().filter(|x| **x >= lo && **x <= hi).count();
        let d = if within < min {
            None
        } else if c >= lo && c <= hi {
            Some(Flag::Enabled)
        } else {
            Some(Flag::Disabled)
        };
        if !out.contains(&d) {
            out.push(d);
        }
    }
    out
}

pub fn lane_decision(ctx: &mut Ctx) {
    let endpoints = wd::endpoints();
    let shapes: Vec<Option<&'static str>> = endpoints.iter().map(|(_, c)| shape_for(c)).collect();
    let targets = [
        wd::Canister::BitcoinMainnet,
        wd::Canister::BitcoinMainnetStaging,
        wd::Canister::BitcoinTestnet,
        wd::Canister::DogecoinMainnet,
        wd::Canister::DogecoinMainnetStaging,
    ];
    let max_cases = if ctx.tier == Tier::Quick { 10_000_000 } else { 1_000_000_000 };
    for k in ctx.cases("decision", max_cases) {
        if !ctx.time_left() {
            break;
        }
        ctx.begin("decision", k);
        let mut rng = Rng::derive(&[ctx.seed, fp_str("decision"), k]);
        let target = targets[(k as usize) % targets.len()];
        wd::set_target(target);
        let cfg = wd::get_config();
        let (min, behind, ahead) = (cfg.min_explorers as usize, cfg.blocks_behind_threshold, cfg.blocks_ahead_threshold);
        let base: u64 = 800_000 + rng.range(0, 100_000);
        let window = behind + ahead + 4;
        // a script of 1-3 rounds: earlier rounds may leave stale heights behind
        let rounds = rng.range(1, 3);
        let mut prev_decision: Option<Vec<Option<Flag>>> = None;
        for round in 0..rounds {
            // assign an outcome to every endpoint (only those of the target's providers will be fetched)
            let mut plan: Vec<Fetch> = vec![];
            for _ in 0..endpoints.len() {
                plan.push(match rng.below(12) {
                    0 => Fetch::Non200,
                    1 => Fetch::TransportError,
                    2 => Fetch::Garbage,
                    3 => Fetch::NullHeight,
                    4 => Fetch::Height(base + rng.range(0, 50_000)), // far outlier
                    5 => Fetch::Height(base.saturating_sub(rng.range(1000, 5000))),
                    _ => Fetch::Height(base + rng.range(0, window)),
                });
            }
            // in the last round of a multi-round script, often fail many providers (staleness)
            if round > 0 && rng.chance(1, 2) {
                for p in plan.iter_mut() {
                    if rng.chance(2, 3) {
                        *p = Fetch::TransportError;
                    }
                }
            }
            for (i, (_, ecfg)) in endpoints.iter().enumerate() {
                let req = ecfg.verif_request();
                let shape = shapes[i].unwrap_or("plain");
                let body_for = |h: &Doc| -> String {
                    shaped(h).into_iter().find(|(n, _)| *n == shape).map(|(_, d)| d.compact()).unwrap()
                };
                match &plan[i] {
                    Fetch::Height(h) => ic_http::mock::mock(req, HttpRequestResult { status: Nat::from(200u32), headers: random_headers(&mut rng), body: body_for(&Doc::Num(h.to_string())).into_bytes() }),
                    Fetch::NullHeight => ic_http::mock::mock(req, HttpRequestResult { status: Nat::from(200u32), headers: vec![], body: body_for(&Doc::Null).into_bytes() }),
                    Fetch::Non200 => ic_http::mock::mock(req, HttpRequestResult { status: Nat::from(503u32), headers: vec![], body: body_for(&Doc::Num("777777".into())).into_bytes() }),
                    Fetch::Garbage => ic_http::mock::mock(req, HttpRequestResult { status: Nat::from(200u32), headers: vec![], body: b"<html>busy</html>".to_vec() }),
                    Fetch::TransportError => ic_http::mock::mock_error(req, (ic_cdk::call::RejectCode::SysTransient, "timeout".into())),
                }
            }
            let canister_height: Option<u64> = match rng.below(8) {
                0 => None,
                1 => Some(base.saturating_sub(rng.range(0, 3000))),
                _ => Some(base + rng.range(0, window)),
            };
            let r = world::guarded(|| world::run_ready(wd::round(canister_height)));
            let (health, target_flag) = match r {
                Out::Trap(m) => {
                    ctx.violation(format!("watchdog round trapped: {}", m), None, json!({"target": format!("{:?}", target)}));
                    break;
                }
                Out::Ok(x) => x,
            };
            // which endpoints were fetched this round, and with what result
            let mut heights: Vec<u64> = vec![];
            let mut fetched = 0;
            for (i, (_, ecfg)) in endpoints.iter().enumerate() {
                if ic_http::mock::times_called(ecfg.verif_request()) > 0 {
                    fetched += 1;
                    if let Fetch::Height(h) = &plan[i] {
                        heights.push(*h);
                    }
                }
            }
            let want = expected_decision(&heights, canister_height, min, behind, ahead);
            ctx.cov.count("c17_rounds");
            ctx.cov.count(&format!("c17_decision_{}", match target_flag { None => "none", Some(Flag::Enabled) => "enable", Some(Flag::Disabled) => "disable" }));
            if heights.len() == min || heights.len() + 1 == min {
                ctx.cov.count("c17_quorum_edge_cases");
            }
            if round > 0 {
                ctx.cov.count("c17_rounds_after_an_earlier_round");
            }
            if want.len() > 1 {
                ctx.cov.count("c17_ambiguous_even_median");
            }
            let mut hs = heights.clone();
            hs.sort();
            ctx.cov.eval(Some(fp_str(&format!("c17|{:?}|{:?}|{:?}|{:?}", target, hs.iter().map(|h| *h as i64 - base as i64).collect::<Vec<_>>(), canister_height.map(|c| c as i64 - base as i64), target_flag))));
            if !want.contains(&target_flag) {
                ctx.violation(
                    format!(
                        "watchdog decision {:?} (status {:?}) for explorer heights {:?} (fetched this round from {} providers), canister height {:?}, config min={} behind={} ahead={}; the rule gives {:?}",
                        target_flag, health.height_status, hs, fetched, canister_height, min, behind, ahead, want
                    ),
                    None,
                    json!({"target": format!("{:?}", target), "round": round, "previous_round_decision": format!("{:?}", prev_decision)}),
                );
            }
            prev_decision = Some(want.clone());
            // order independence: permute the plan over the fetched endpoints and repeat the round
            if rng.chance(1, 3) {
                let fetched_idx: Vec<usize> = (0..endpoints.len()).filter(|i| ic_http::mock::times_called(endpoints[*i].1.verif_request()) > 0).collect();
                let mut perm = fetched_idx.clone();
                rng.shuffle(&mut perm);
                let mut plan2 = plan.clone();
                for (a, b) in fetched_idx.iter().zip(perm.iter()) {
                    plan2[*a] = plan[*b].clone();
                }
                for (i, (_, ecfg)) in endpoints.iter().enumerate() {
                    let req = ecfg.verif_request();
                    let shape = shapes[i].unwrap_or("plain");
                    let body_for = |h: &Doc| -> String { shaped(h).into_iter().find(|(n, _)| *n == shape).map(|(_, d)| d.compact()).unwrap() };
                    match &plan2[i] {
                        Fetch::Height(h) => ic_http::mock::mock(req, HttpRequestResult { status: Nat::from(200u32), headers: vec![], body: body_for(&Doc::Num(h.to_string())).into_bytes() }),
                        Fetch::NullHeight => ic_http::mock::mock(req, HttpRequestResult { status: Nat::from(200u32), headers: vec![], body: body_for(&Doc::Null).into_bytes() }),
                        Fetch::Non200 => ic_http::mock::mock(req, HttpRequestResult { status: Nat::from(503u32), headers: vec![], body: vec![] }),
                        Fetch::Garbage => ic_http::mock::mock(req, HttpRequestResult { status: Nat::from(200u32), headers: vec![], body: b"{".to_vec() }),
                        Fetch::TransportError => ic_http::mock::mock_error(req, (ic_cdk::call::RejectCode::SysTransient, "timeout".into())),
                    }
                }
                if let Out::Ok((_, flag2)) = world::guarded(|| world::run_ready(wd::round(canister_height))) {
                    ctx.cov.count("c17_permutations_compared");
                    if flag2 != target_flag {
                        ctx.violation(
                            format!("the decision depends on the order of explorers: {:?} vs {:?} for the same multiset {:?}", target_flag, flag2, hs),
                            None,
                            json!({"target": format!("{:?}", target)}),
                        );
                    }
                }
            }
            if ctx.cov.samples.len() < 4 {
                ctx.cov.sample(json!({"target": format!("{:?}", target), "round": round, "explorer_heights": hs, "canister_height": canister_height,
                    "decision": format!("{:?}", target_flag), "status": format!("{:?}", health.height_status)}));
            }
        }
    }
}
