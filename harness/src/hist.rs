//! History generator + lock-step driver of canister and reference model.
//! Also hosts the C03 monitor (decisions are compared at every ingestion opportunity).

use crate::cov::Ctx;
use crate::gen::{self, Universe};
use crate::model::{Decision, Model};
use crate::parse::{self, H};
use crate::rng::Rng;
use crate::world::{self, Ingest, Out, WorldCfg};
use bitcoin::Transaction;
use ic_btc_interface::{Flag, Network};
use serde_json::json;
use std::collections::HashMap;

#[derive(Clone, Copy, Debug, PartialEq)]
pub enum Path {
    /// blocks as bytes through mock get_successors replies and heartbeats (regtest)
    Heartbeat,
    /// state::insert_block with mock difficulty, full validation (regtest)
    Insert,
    /// unstable_blocks::push below validation (mainnet / testnet)
    Push,
    /// model only: generates a universe of valid regtest blocks without touching the canister
    Dry,
}

#[derive(Clone, Copy, Debug, PartialEq)]
pub enum Palette {
    /// every block difficulty 1 (real regtest value)
    One,
    /// small random difficulties 1..=k
    Random(u64),
    /// mostly 1, occasionally a heavy block
    Heavy(u64),
    /// strictly increasing along arrival
    Increasing,
}

#[derive(Clone, Debug)]
pub struct HistCfg {
    pub net: Network,
    pub path: Path,
    pub threshold: u32,
    pub n_each: usize,
    pub max_txs: usize,
    pub fork_pct: u64,
    pub palette: Palette,
    pub fanout_pct: u64,
    pub share_pct: u64,
    pub lazy_fees: bool,
    pub sync_gate: bool,
    pub ingest_pct: u64,
    pub fee_txs: bool,
}

impl HistCfg {
    pub fn random(rng: &mut Rng, tier_thorough: bool) -> HistCfg {
        let (net, path) = match rng.below(10) {
            0..=3 => (Network::Regtest, Path::Insert),
            4..=5 => (Network::Regtest, Path::Heartbeat),
            6..=7 => (Network::Mainnet, Path::Push),
            _ => (Network::Testnet, Path::Push),
        };
        let threshold = match rng.below(10) {
            0..=5 => rng.range(1, 4) as u32,
            6..=8 => rng.range(5, 12) as u32,
            _ => if tier_thorough { rng.range(13, 60) as u32 } else { 30 },
        };
        let palette = if path == Path::Heartbeat {
            Palette::One
        } else {
            match rng.below(6) {
                0 | 1 => Palette::One,
                2 => Palette::Random(3),
                3 => Palette::Random(20),
                4 => Palette::Heavy(10),
                _ => Palette::Increasing,
            }
        };
        HistCfg {
            net,
            path,
            threshold,
            n_each: 1,
            max_txs: 3,
            fork_pct: *rng.pick(&[10, 25, 40, 60]),
            palette,
            fanout_pct: 5,
            share_pct: 15,
            lazy_fees: rng.chance(1, 2),
            sync_gate: false,
            ingest_pct: 85,
            fee_txs: true,
        }
    }
}

pub struct Hist {
    pub cfg: HistCfg,
    pub rng: Rng,
    pub uni: Universe,
    pub model: Model,
    pub raw: HashMap<H, bitcoin::Block>,
    pub diffs: HashMap<H, u128>,
    pub uniq: u64,
    pub pool: Vec<Transaction>,
    pub desync: Option<String>,
    pub report_c03: bool,
    pub log: Vec<String>,
    pub last_inc_diff: u128,
    pub reorgs: u64,
    pub advances: u64,
    pub discarded_total: u64,
    pub wcfg: WorldCfg,
    pub fee: Option<crate::fees::FeeTracker>,
    pub upgrades: u64,
    /// the canister's (mock) clock, seconds
    pub now: u64,
    /// headers of valid blocks that were announced but (so far) not delivered
    pub hidden: Vec<Hidden>,
    /// announced headers that are certainly stored by the canister / that may still be stored
    pub ann_must: Vec<Hidden>,
    pub ann_may: Vec<Hidden>,
}

#[derive(Clone, Debug)]
pub struct Hidden {
    pub hash: H,
    pub parent: H,
    pub time: u32,
    pub height: u32,
    pub header: Vec<u8>,
    pub block: Option<bitcoin::Block>,
}

fn short(h: &H) -> String {
    gen::hex32(h)[..10].to_string()
}

impl Hist {
    pub fn new(cfg: HistCfg, mut rng: Rng) -> Hist {
        let uni = Universe::new(cfg.net, &mut rng, cfg.n_each);
        let mut wcfg = WorldCfg::new(cfg.net, cfg.threshold);
        wcfg.lazy_fees = if cfg.lazy_fees { Flag::Enabled } else { Flag::Disabled };
        wcfg.sync_gate = if cfg.sync_gate { Flag::Enabled } else { Flag::Disabled };
        let mut raw = HashMap::new();
        let mut diffs = HashMap::new();
        let model;
        match cfg.path {
            Path::Heartbeat | Path::Insert | Path::Dry => {
                if cfg.path != Path::Dry {
                    world::reset(&wcfg);
                }
                let g = gen::genesis(cfg.net);
                let pb = parse::parse_block(&gen::block_bytes(&g)).expect("genesis parses");
                model = Model::new(cfg.net, cfg.threshold, &pb, 1);
                diffs.insert(pb.hash, 1);
                raw.insert(pb.hash, g);
            }
            Path::Push => {
                // custom genesis with an explicit mock difficulty >= 1
                let gd: u128 = match cfg.palette {
                    Palette::One => 1,
                    Palette::Random(k) => rng.range(1, k) as u128,
                    Palette::Heavy(_) => 1,
                    Palette::Increasing => 1,
                };
                let cb = gen::coinbase_tx(0, 0, vec![(50_0000_0000, uni.addrs[0].script.clone())]);
                let g = gen::make_block(cfg.net, [0u8; 32], 1_600_000_000, vec![cb], false);
                world::reset_with_genesis(&wcfg, &g, gd);
                let pb = parse::parse_block(&gen::block_bytes(&g)).expect("genesis parses");
                model = Model::new(cfg.net, cfg.threshold, &pb, gd);
                diffs.insert(pb.hash, gd);
                raw.insert(pb.hash, g);
            }
        }
        Hist {
            cfg,
            rng,
            uni,
            model,
            raw,
            diffs,
            uniq: 1,
            pool: vec![],
            desync: None,
            report_c03: false,
            log: vec![],
            last_inc_diff: 1,
            reorgs: 0,
            advances: 0,
            discarded_total: 0,
            wcfg,
            fee: None,
            upgrades: 0,
            now: world::MOCK_NOW_SECS,
            hidden: vec![],
            ann_must: vec![],
            ann_may: vec![],
        }
    }

    pub fn net(&self) -> Network {
        self.cfg.net
    }

    fn next_difficulty(&mut self) -> u128 {
        match self.cfg.palette {
            Palette::One => 1,
            Palette::Random(k) => self.rng.range(1, k) as u128,
            Palette::Heavy(k) => {
                if self.rng.chance(1, 5) {
                    self.rng.range(2, k) as u128
                } else {
                    1
                }
            }
            Palette::Increasing => {
                self.last_inc_diff += self.rng.range(0, 2) as u128;
                self.last_inc_diff
            }
        }
    }

    /// picks a parent among the live blocks: mostly the best tip, sometimes any block
    pub fn pick_parent(&mut self) -> H {
        let best = self.model.best_chains()[0].clone();
        if !self.rng.chance(self.cfg.fork_pct, 100) {
            return *best.last().unwrap();
        }
        let live = self.model.live_preorder();
        match self.rng.below(3) {
            0 => *self.rng.pick(&live),
            1 => {
                // a tip of some branch
                let tips: Vec<H> = live
                    .iter()
                    .filter(|h| self.model.kids(h).is_empty())
                    .cloned()
                    .collect();
                *self.rng.pick(&tips)
            }
            _ => {
                // near the best tip
                let i = best.len().saturating_sub(1 + self.rng.usize_below(3));
                best[i]
            }
        }
    }

    fn random_script(&mut self) -> Vec<u8> {
        if self.rng.chance(80, 100) {
            self.rng.pick(&self.uni.addrs).script.clone()
        } else {
            let i = self.rng.usize_below(self.uni.plain_scripts.len());
            // huge scripts are rare
            if self.uni.plain_scripts[i].1 == "huge_script" && !self.rng.chance(1, 10) {
                return self.uni.plain_scripts[0].0.clone();
            }
            self.uni.plain_scripts[i].0.clone()
        }
    }

    /// Builds a transaction-valid block on `parent`.
    pub fn gen_block(&mut self, parent: &H) -> bitcoin::Block {
        let ledger = self.model.ledger_at(parent);
        let pheight = self.model.blocks[parent].height;
        let ptime = self.model.blocks[parent].time;
        let height = pheight + 1;
        self.uniq += 1;
        // coinbase
        let n_cb_out = self.rng.range(1, 3) as usize;
        let mut cb_outs = vec![];
        for _ in 0..n_cb_out {
            let v = if self.rng.chance(1, 12) { 0 } else { self.rng.range(1, 50_0000_0000) };
            cb_outs.push((v, self.random_script()));
        }
        let mut txs = vec![gen::coinbase_tx(height, self.uniq, cb_outs)];

        // spendable outputs on this chain
        // provably unspendable outputs (OP_RETURN) cannot be inputs of a transaction-valid block
        let mut avail: Vec<((H, u32), u64)> = ledger
            .iter()
            .filter(|(_, u)| u.script.first() != Some(&0x6a))
            .map(|(k, u)| (*k, u.value))
            .collect();
        // prefer recent and address-owned outputs a bit by shuffling
        self.rng.shuffle(&mut avail);
        let mut used: std::collections::BTreeSet<(H, u32)> = Default::default();

        let mut shared_outs: Vec<((H, u32), u64)> = vec![];
        // re-confirm a transaction first seen on another fork
        if !self.pool.is_empty() && self.rng.chance(self.cfg.share_pct, 100) {
            let i = self.rng.usize_below(self.pool.len());
            let tx = self.pool[i].clone();
            let ins: Vec<(H, u32)> = tx
                .input
                .iter()
                .map(|i| {
                    use bitcoin::hashes::Hash;
                    (i.previous_output.txid.to_byte_array(), i.previous_output.vout)
                })
                .collect();
            if ins.iter().all(|k| ledger.contains_key(k) && !used.contains(k)) {
                for k in &ins {
                    used.insert(*k);
                }
                // its outputs can be spent further down in this very block
                {
                    use bitcoin::hashes::Hash;
                    let txid = tx.compute_txid().to_byte_array();
                    for (j, o) in tx.output.iter().enumerate() {
                        if o.script_pubkey.as_bytes().first() != Some(&0x6a) && !ledger.contains_key(&(txid, j as u32)) {
                            shared_outs.push(((txid, j as u32), o.value.to_sat()));
                        }
                    }
                }
                txs.push(tx);
            }
        }

        let n_tx = self.rng.usize_below(self.cfg.max_txs + 1) + if shared_outs.is_empty() { 0 } else { 1 };
        let mut local: Vec<((H, u32), u64)> = shared_outs;
        for _ in 0..n_tx {
            let n_in = self.rng.range(1, 3) as usize;
            let mut ins: Vec<(H, u32)> = vec![];
            let mut total: u64 = 0;
            for _ in 0..n_in {
                // same-block create-and-spend
                if !local.is_empty() && self.rng.chance(2, 5) {
                    let j = self.rng.usize_below(local.len());
                    let (k, v) = local.remove(j);
                    ins.push(k);
                    total += v;
                    continue;
                }
                while let Some((k, v)) = avail.pop() {
                    if used.contains(&k) {
                        continue;
                    }
                    used.insert(k);
                    ins.push(k);
                    total += v;
                    break;
                }
            }
            if ins.is_empty() {
                break;
            }
            let fanout = self.rng.chance(self.cfg.fanout_pct, 100);
            let n_out = if fanout {
                self.rng.range(5, 12) as usize
            } else {
                self.rng.range(0, 4) as usize
            };
            let fee = if self.cfg.fee_txs {
                self.rng.range(0, total.min(20_000))
            } else {
                0
            };
            let mut rest = total - fee;
            let fan_script = self.rng.pick(&self.uni.addrs).script.clone();
            let mut outs = vec![];
            for j in 0..n_out {
                let v = if j + 1 == n_out {
                    rest
                } else if self.rng.chance(1, 10) {
                    0
                } else {
                    self.rng.range(0, rest)
                };
                rest -= v;
                let s = if fanout { fan_script.clone() } else { self.random_script() };
                outs.push((v, s));
            }
            let witness_items = if self.rng.chance(1, 2) { self.rng.range(1, 3) as usize } else { 0 };
            let sig_len = if witness_items == 0 { self.rng.range(0, 70) as usize } else { 0 };
            let tx = gen::spend_tx(&ins, outs.clone(), witness_items, sig_len, &mut self.rng);
            {
                use bitcoin::hashes::Hash;
                let txid = tx.compute_txid().to_byte_array();
                for (j, (v, sc)) in outs.iter().enumerate() {
                    if sc.first() != Some(&0x6a) {
                        local.push(((txid, j as u32), *v));
                    }
                }
            }
            if self.pool.len() < 64 {
                self.pool.push(tx.clone());
            }
            txs.push(tx);
        }
        let time = ptime + self.rng.range(1, 900) as u32;
        // the clock only moves forward: keep generated blocks within the +2h rule
        if time as u64 > self.now + 7000 && self.cfg.path != Path::Dry {
            self.now = time as u64 - 3600;
            ic_btc_canister::runtime::mock_time::set_mock_time_secs(self.now);
        }
        let mine = self.cfg.path != Path::Push;
        gen::make_block(self.cfg.net, *parent, time, txs, mine)
    }

    /// Generates and delivers one block on `parent`. Returns the hash if the canister admitted it.
    pub fn add_block_on(&mut self, parent: &H, ctx: &mut Ctx) -> Option<H> {
        let block = self.gen_block(parent);
        let d = if self.cfg.path == Path::Heartbeat || self.cfg.path == Path::Dry { 1 } else { self.next_difficulty() };
        self.deliver(block, d, ctx)
    }

    pub fn deliver(&mut self, block: bitcoin::Block, difficulty: u128, ctx: &mut Ctx) -> Option<H> {
        let bytes = gen::block_bytes(&block);
        let pb = parse::parse_block(&bytes).expect("own block parses");
        let hash = pb.hash;
        let prev_best = self.model.best_chains()[0].clone();
        let res: Out<Result<(), String>> = match self.cfg.path {
            Path::Dry => Out::Ok(Ok(())),
            Path::Insert => world::insert_block(&block, Some(difficulty)),
            Path::Push => world::push_block(&block, Some(difficulty)),
            Path::Heartbeat => {
                let before = world::tree_hashes().len();
                world::set_replies(vec![world::reply_complete(vec![bytes.clone()], vec![])]);
                let mut r = Out::Ok(Ok(()));
                // fetch, then process (one or two more rounds if a stored empty reply
                // has to be consumed first)
                for _ in 0..6 {
                    if let Out::Trap(m) = world::heartbeat() {
                        r = Out::Trap(m);
                        break;
                    }
                    if world::tree_hashes().len() == before + 1 {
                        break;
                    }
                }
                if !r.is_trap() && world::tree_hashes().len() != before + 1 {
                    r = Out::Ok(Err("heartbeat did not insert the block".into()));
                }
                r
            }
        };
        match res {
            Out::Trap(m) => {
                self.desync = Some(format!("trap while delivering valid block: {}", m));
                ctx.violation(
                    format!("delivering a valid block trapped: {}", m),
                    None,
                    json!({"block": short(&hash), "log": self.log}),
                );
                return None;
            }
            Out::Ok(Err(e)) => {
                self.desync = Some(format!("valid block refused: {}", e));
                return None;
            }
            Out::Ok(Ok(())) => {}
        }
        let h = self.model.accept(&pb, difficulty);
        self.log.push(format!(
            "block {} on {} h={} d={} txs={}",
            short(&hash),
            short(&pb.prev),
            h,
            difficulty,
            pb.txs.len()
        ));
        self.raw.insert(hash, block);
        self.diffs.insert(hash, difficulty);
        let new_best = self.model.best_chains()[0].clone();
        if !new_best.starts_with(&prev_best) {
            self.reorgs += 1;
        }
        if self.model.tx_invalid.is_some() {
            self.desync = Some(format!("generator produced a tx-invalid block: {:?}", self.model.tx_invalid));
        }
        self.fee_boundary();
        Some(hash)
    }

    pub fn fee_boundary(&mut self) {
        if let Some(mut f) = self.fee.take() {
            f.boundary(&mut self.model);
            self.fee = Some(f);
        }
    }

    /// pre_upgrade + post_upgrade between two messages
    pub fn upgrade(&mut self, ctx: &mut Ctx) -> bool {
        match world::upgrade(None) {
            Out::Trap(m) => {
                self.desync = Some(format!("upgrade trapped: {}", m));
                ctx.violation(format!("pre_upgrade/post_upgrade trapped: {}", m), None, json!({"log": self.log}));
                false
            }
            Out::Ok(()) => {
                self.upgrades += 1;
                self.log.push("upgrade".into());
                true
            }
        }
    }

    /// One ingestion opportunity: runs the canister's ingestion (to completion) and compares the
    /// anchor advance with the model's rule. Returns false if the case cannot continue.
    pub fn opportunity(&mut self, ctx: &mut Ctx) -> bool {
        if self.desync.is_some() {
            return false;
        }
        let best_before = self.model.best_chains();
        // run the canister
        let outcome = match self.cfg.path {
            Path::Heartbeat => {
                // a heartbeat first ingests; with nothing to fetch it then processes nothing
                world::set_replies(vec![]);
                let r = world::heartbeat();
                match r {
                    Out::Trap(m) => Out::Trap(m),
                    Out::Ok(()) => Out::Ok(Ingest::Done(true)),
                }
            }
            _ => world::ingest_stable(),
        };
        match outcome {
            Out::Trap(m) => {
                self.desync = Some(format!("ingestion trapped: {}", m));
                ctx.violation(
                    format!("ingestion of stable blocks trapped: {}", m),
                    None,
                    json!({"log": self.log}),
                );
                return false;
            }
            Out::Ok(Ingest::Paused) => {
                self.desync = Some("unexpected pause (no budget set)".into());
                return false;
            }
            Out::Ok(Ingest::Done(_)) => {}
        }
        self.compare_anchor(ctx, &best_before)
    }

    /// Brings the model's anchor in line with the canister's, judging every step by the rule.
    pub fn compare_anchor(&mut self, ctx: &mut Ctx, best_before: &[Vec<H>]) -> bool {
        let can_tree = world::tree_hashes();
        let can_anchor = can_tree[0];
        let can_sh = world::stable_height();
        let start_anchor = self.model.anchor;
        let mut steps = 0;
        loop {
            steps += 1;
            if steps > 100_000 {
                break;
            }
            let dec = self.model.decide();
            // next block on the way to the canister's anchor, if it is below ours
            let next_towards: Option<H> = if self.model.anchor == can_anchor {
                None
            } else {
                self.model
                    .kids(&self.model.anchor)
                    .iter()
                    .find(|k| is_ancestor_or_self(&self.model, k, &can_anchor))
                    .cloned()
            };
            match dec {
                Decision::Must(x) => {
                    ctx.cov.count("c03_rule_must_advance");
                    if self.model.anchor == can_anchor && world::is_ingesting() {
                        // the advance is in progress (ingestion paused between rounds)
                        break;
                    }
                    if self.model.anchor == can_anchor {
                        // withheld
                        if self.report_c03 {
                            ctx.violation(
                                format!(
                                    "withheld: rule selects child {} of anchor {} but the canister did not advance (stable height {})",
                                    short(&x), short(&self.model.anchor), can_sh
                                ),
                                None,
                                json!({"log": self.log, "threshold": self.model.threshold}),
                            );
                        }
                        self.desync = Some("C03 withheld".into());
                        return false;
                    }
                    if next_towards != Some(x) {
                        if self.report_c03 {
                            ctx.violation(
                                format!(
                                    "wrong child: rule selects {} but the canister's anchor {} is not below it",
                                    short(&x), short(&can_anchor)
                                ),
                                None,
                                json!({"log": self.log}),
                            );
                        }
                        self.desync = Some("C03 wrong child".into());
                        return false;
                    }
                    self.note_advance(ctx, x, best_before, false);
                }
                Decision::MustNot => {
                    ctx.cov.count("c03_rule_must_not_advance");
                    if self.model.anchor != can_anchor {
                        if self.report_c03 {
                            ctx.violation(
                                format!(
                                    "early: no child of anchor {} qualifies (threshold {}), yet the canister advanced to {} (stable height {})",
                                    short(&self.model.anchor), self.model.threshold, short(&can_anchor), can_sh
                                ),
                                None,
                                json!({"log": self.log}),
                            );
                        }
                        self.desync = Some("C03 early".into());
                        return false;
                    }
                    break;
                }
                Decision::May(opts) => {
                    ctx.cov.count("c03_ambiguous_steps");
                    if self.model.anchor == can_anchor && world::is_ingesting() {
                        break;
                    }
                    match next_towards {
                        Some(n) if opts.contains(&Some(n)) => {
                            self.note_advance(ctx, n, best_before, true);
                        }
                        None if self.model.anchor == can_anchor && opts.contains(&None) => break,
                        _ => {
                            if self.report_c03 {
                                ctx.violation(
                                    format!(
                                        "canister anchor {} is none of the admissible outcomes at model anchor {}",
                                        short(&can_anchor), short(&self.model.anchor)
                                    ),
                                    None,
                                    json!({"log": self.log}),
                                );
                            }
                            self.desync = Some("C03 inadmissible".into());
                            return false;
                        }
                    }
                }
            }
        }
        // post-conditions: stable height and live set agree
        if can_sh != self.model.stable_height() {
            if self.report_c03 {
                ctx.violation(
                    format!("stable height {} but {} blocks were stabilised by the rule", can_sh, self.model.stable_height()),
                    None,
                    json!({"log": self.log}),
                );
            }
            self.desync = Some("stable height mismatch".into());
            return false;
        }
        let mut a: Vec<H> = can_tree.clone();
        a.sort();
        let mut b = self.model.live_preorder();
        b.sort();
        if a != b {
            if self.report_c03 {
                ctx.violation(
                    "set of unstable blocks differs from descendants of the anchor (fork discarded at the wrong time or kept)".into(),
                    None,
                    json!({"log": self.log, "canister": can_tree.iter().map(short).collect::<Vec<_>>(),
                           "model": self.model.live_preorder().iter().map(short).collect::<Vec<_>>()}),
                );
            }
            self.desync = Some("live set mismatch".into());
            return false;
        }
        self.fee_boundary();
        if self.report_c03 && can_sh > 0 {
            // the block recorded at a stable height never changes: read the last few stable heights
            // back through the API and compare with the append-only stable chain of the model
            let lo = can_sh.saturating_sub(3);
            if let Out::Ok(Ok(r)) = world::get_block_headers(lo, Some(can_sh - 1), self.cfg.net) {
                let want: Vec<Vec<u8>> = (lo..can_sh).map(|x| self.model.blocks[&self.model.stable_chain[x as usize]].header.clone()).collect();
                ctx.cov.count("c03_stable_heights_read_back");
                if r.block_headers != want {
                    ctx.violation(
                        format!("the headers recorded at stable heights {}..{} are not those of the blocks that were stabilised", lo, can_sh - 1),
                        None,
                        json!({"log": self.log}),
                    );
                }
            }
        }
        if self.report_c03 {
            let fpv = crate::rng::fp_str(&format!(
                "{:?}|{}|{}|{}",
                self.shape_sig(),
                self.model.threshold,
                gen::net_name(self.cfg.net),
                start_anchor != self.model.anchor
            ));
            ctx.cov.eval(Some(fpv));
            if ctx.cov.samples.len() < 4 && start_anchor != self.model.anchor && self.model.leaf_paths().len() > 1 {
                ctx.cov.sample(json!({"net": gen::net_name(self.cfg.net), "threshold": self.model.threshold,
                    "tree_after_advance_(relheight,difficulty)": format!("{:?}", self.shape_sig()),
                    "stable_height": self.model.stable_height(), "last_events": self.log.iter().rev().take(4).collect::<Vec<_>>()}));
            } else if ctx.cov.samples.is_empty() {
                ctx.cov.sample(json!({"net": gen::net_name(self.cfg.net), "threshold": self.model.threshold,
                    "tree_(relheight,difficulty)": format!("{:?}", self.shape_sig()), "advanced": start_anchor != self.model.anchor}));
            }
        }
        true
    }

    fn note_advance(&mut self, ctx: &mut Ctx, x: H, best_before: &[Vec<H>], ambiguous: bool) {
        // the new anchor must lie on the chain that was being served
        let on_served = best_before.iter().any(|c| c.contains(&x))
            || self.model.best_chains().iter().any(|c| c.contains(&x));
        if !on_served && self.report_c03 && !ambiguous {
            ctx.violation(
                format!("new anchor {} is not on the best chain", short(&x)),
                None,
                json!({"log": self.log}),
            );
        }
        let gone = self.model.advance_to(x);
        self.advances += 1;
        self.discarded_total += gone.len() as u64;
        ctx.cov.count("anchor_advances");
        ctx.cov.add("blocks_discarded", gone.len() as u64);
        self.log.push(format!("anchor -> {} (discarded {})", short(&x), gone.len()));
    }

    /// canonical shape of the live tree: pre-order of (depth-in-tree, difficulty)
    pub fn shape_sig(&self) -> Vec<(u32, u128)> {
        let sh = self.model.stable_height();
        self.model
            .live_preorder()
            .iter()
            .map(|h| {
                let b = &self.model.blocks[h];
                (b.height - sh, b.difficulty)
            })
            .collect()
    }

    pub fn set_threshold(&mut self, t: u32) {
        let r = world::set_config(ic_btc_interface::SetConfigRequest {
            stability_threshold: Some(t as u128),
            ..Default::default()
        });
        if r.is_trap() {
            self.desync = Some("set_config trapped".into());
        }
        self.model.threshold = t;
        self.log.push(format!("threshold := {}", t));
    }

    /// one random step of a history. Returns false when the case must stop.
    pub fn step(&mut self, ctx: &mut Ctx) -> bool {
        if self.desync.is_some() {
            return false;
        }
        let r = self.rng.below(100);
        if r < 4 {
            let t = self.rng.range(1, 8) as u32;
            self.set_threshold(t);
        } else {
            let parent = self.pick_parent();
            if self.add_block_on(&parent, ctx).is_none() {
                return false;
            }
        }
        if self.rng.chance(self.cfg.ingest_pct, 100) || self.cfg.path == Path::Heartbeat {
            if !self.opportunity(ctx) {
                return false;
            }
        }
        self.desync.is_none()
    }
}

pub fn is_ancestor_or_self(m: &Model, a: &H, b: &H) -> bool {
    // is `a` an ancestor of `b` (or equal)?
    let mut cur = *b;
    loop {
        if cur == *a {
            return true;
        }
        match m.blocks.get(&cur) {
            Some(blk) if blk.height > 0 && m.blocks.contains_key(&blk.parent) => {
                if blk.height <= m.blocks[a].height {
                    return false;
                }
                cur = blk.parent;
            }
            _ => return false,
        }
    }
}

impl Hist {
    /// A chain of 1..=n valid headers (coinbase-only blocks, mined) on a live block or on a
    /// previously announced hidden header. Returns the 80-byte headers in chain order.
    pub fn hidden_header_chain(&mut self, n: usize) -> Vec<Vec<u8>> {
        let r = self.rng.below(10);
        let (mut parent, mut time, mut height) = if !self.hidden.is_empty() && r < 5 {
            // on top of an announced header: mostly a recent one (it may have gone stale meanwhile)
            let x = if self.rng.chance(2, 3) {
                let k = self.hidden.len() - 1 - self.rng.usize_below(self.hidden.len().min(3));
                self.hidden[k].clone()
            } else {
                self.rng.pick(&self.hidden).clone()
            };
            (x.hash, x.time, x.height)
        } else {
            let live = self.model.live_preorder();
            let p = if r < 8 {
                // close to the anchor, where announced headers are pruned soonest
                live[self.rng.usize_below(live.len().min(3))]
            } else {
                *self.rng.pick(&live)
            };
            (p, self.model.blocks[&p].time, self.model.blocks[&p].height)
        };
        let mut out = vec![];
        let first_parent = parent;
        for _ in 0..n {
            self.uniq += 1;
            let cb = gen::coinbase_tx(height + 1, self.uniq, vec![(1, self.uni.addrs[0].script.clone())]);
            time += self.rng.range(1, 600) as u32;
            if time as u64 > self.now + 7000 {
                self.now = time as u64 - 3600;
                ic_btc_canister::runtime::mock_time::set_mock_time_secs(self.now);
            }
            let b = gen::make_block(self.cfg.net, parent, time, vec![cb], true);
            let hash = gen::hash_of(&b);
            let header = gen::header_bytes(&b.header);
            self.hidden.push(Hidden { hash, parent, time, height: height + 1, header: header.clone(), block: Some(b.clone()) });
            if self.hidden.len() > 24 {
                self.hidden.remove(0);
            }
            out.push(header);
            parent = hash;
            height += 1;
        }
        // a block source repeats the headers it announced before: half of the lists start with
        // the (already announced) ancestors of the new headers, which the canister must skip
        // without dropping what follows
        if self.rng.chance(1, 2) {
            let mut pre: Vec<Vec<u8>> = vec![];
            let mut cur = first_parent;
            while let Some(x) = self.hidden.iter().find(|x| x.hash == cur) {
                pre.push(x.header.clone());
                cur = x.parent;
                if pre.len() >= 4 {
                    break;
                }
            }
            if !pre.is_empty() {
                pre.reverse();
                pre.extend(out);
                out = pre;
            }
        }
        out
    }
}

impl Hist {
    /// Records what the canister does with an announced-header list that it processes
    /// (all blocks of the response were fine): headers are taken in order until the first one
    /// that does not decode, does not validate or does not connect.
    pub fn note_announced(&mut self, next: &[Vec<u8>]) {
        for item in next {
            let Some(hd) = self.hidden.iter().find(|x| &x.header == item).cloned() else {
                // garbage, a header of a block in the tree, an unconnected header: processing stops
                break;
            };
            // whatever was offered may be stored
            if !self.ann_may.iter().any(|x| x.hash == hd.hash) {
                self.ann_may.push(hd.clone());
            }
            if self.ann_must.iter().any(|x| x.hash == hd.hash) {
                continue; // already stored: skipped
            }
            if self.model.is_live(&hd.hash) {
                break; // its block is already in the tree: refused, processing stops
            }
            let connected = self.model.is_live(&hd.parent) || self.ann_must.iter().any(|x| x.hash == hd.parent);
            if !connected {
                break;
            }
            self.ann_must.push(hd);
        }
    }

    /// After blocks arrived or the anchor moved.
    pub fn prune_announced(&mut self) {
        let sh = self.model.stable_height();
        let live = |m: &crate::model::Model, h: &H| m.is_live(h);
        // delivered
        let model = &self.model;
        self.ann_must.retain(|x| !live(model, &x.hash) && x.height > sh);
        self.ann_may.retain(|x| !live(model, &x.hash) && x.height > sh);
        // connectivity of the certain set: root must still be live, through certain headers only
        loop {
            let before = self.ann_must.len();
            let snapshot = self.ann_must.clone();
            let model = &self.model;
            self.ann_must.retain(|x| model.is_live(&x.parent) || snapshot.iter().any(|y| y.hash == x.parent));
            if self.ann_must.len() == before {
                break;
            }
        }
    }
}
