//! Monitors evaluated on a quiescent state of a history: C01, C02, C04, C05, C07.
//! Each compares answers obtained at the client boundary with the reference model.

use crate::cov::Ctx;
use crate::gen;
use crate::hist::Hist;
use crate::model::AUtxo;
use crate::parse::H;
use crate::rng::fp_str;
use crate::world::{self, Filter, Out};
use ic_btc_interface::{GetBalanceError, GetBlockHeadersError, GetUtxosError, Utxo};
use serde_json::{json, Value};

fn short(h: &H) -> String {
    gen::hex32(h)[..10].to_string()
}

pub fn to_autxos(v: &[Utxo]) -> Vec<AUtxo> {
    v.iter()
        .map(|u| {
            let mut txid = [0u8; 32];
            txid.copy_from_slice(u.outpoint.txid.as_ref());
            AUtxo {
                height: u.height,
                txid,
                vout: u.outpoint.vout,
                value: u.value,
            }
        })
        .collect()
}

fn autxo_json(v: &[AUtxo]) -> Value {
    Value::Array(
        v.iter()
            .take(12)
            .map(|u| json!({"h": u.height, "tx": hex::encode(&u.txid[..6]), "vout": u.vout, "value": u.value}))
            .collect(),
    )
}

fn heights_non_increasing(v: &[AUtxo]) -> bool {
    v.windows(2).all(|w| w[0].height >= w[1].height)
}

/// Set comparison of a reported UTXO list with the ledger; returns a description of the difference.
pub fn diff_utxos(observed: &[AUtxo], expected: &[AUtxo]) -> Option<String> {
    let mut o = observed.to_vec();
    o.sort();
    let mut dup = false;
    for w in o.windows(2) {
        if w[0].txid == w[1].txid && w[0].vout == w[1].vout {
            dup = true;
        }
    }
    let mut e = expected.to_vec();
    e.sort();
    if dup {
        return Some("an output is reported more than once".into());
    }
    if o == e {
        return None;
    }
    let extra: Vec<&AUtxo> = o.iter().filter(|x| !e.contains(x)).collect();
    let missing: Vec<&AUtxo> = e.iter().filter(|x| !o.contains(x)).collect();
    Some(format!(
        "{} element(s) not in the ledger (first: {:?}), {} ledger element(s) missing (first: {:?})",
        extra.len(),
        extra.first().map(|u| (u.height, hex::encode(&u.txid[..4]), u.vout, u.value)),
        missing.len(),
        missing.first().map(|u| (u.height, hex::encode(&u.txid[..4]), u.vout, u.value)),
    ))
}

/// Known defect model: a transaction confirmed in more than one accepted block is reported with
/// the height of another occurrence. True iff this is the ONLY kind of difference.
fn only_shared_tx_height_differs(h: &Hist, observed: &[AUtxo], expected: &[AUtxo]) -> bool {
    let mut o = observed.to_vec();
    o.sort_by_key(|u| (u.txid, u.vout));
    let mut e = expected.to_vec();
    e.sort_by_key(|u| (u.txid, u.vout));
    if o.len() != e.len() {
        return false;
    }
    let mut any = false;
    for (a, b) in o.iter().zip(e.iter()) {
        if a.txid != b.txid || a.vout != b.vout || a.value != b.value {
            return false;
        }
        if a.height != b.height {
            // the reported height must be that of another accepted block containing this tx
            let hs: Vec<u32> = h
                .model
                .blocks
                .values()
                .filter(|blk| blk.txs.iter().any(|t| t.txid == a.txid))
                .map(|blk| blk.height)
                .collect();
            if hs.len() < 2 || !hs.contains(&a.height) {
                return false;
            }
            any = true;
        }
    }
    any
}

pub fn state_fp(h: &Hist, extra: &str) -> u64 {
    fp_str(&format!(
        "{:?}|{}|{}|{}",
        h.shape_sig(),
        h.model.threshold,
        gen::net_name(h.net()),
        extra
    ))
}

// ------------------------------------------------------------------------------------ C01

pub fn check_c01(h: &mut Hist, ctx: &mut Ctx, limit: Option<usize>) {
    let net = h.net();
    let forks_live = h.model.live_preorder().iter().any(|b| h.model.kids(b).len() > 1);
    let stable_h = h.model.stable_height();
    let addrs = h.uni.addrs.clone();
    for a in addrs.iter() {
        let res = world::all_pages(&a.text, net, &Filter::None, limit);
        let (first, all, pages, _same_tip) = match res {
            Out::Trap(m) => {
                ctx.violation(
                    format!("get_utxos({}) trapped: {}", a.text, m),
                    None,
                    json!({"log": h.log}),
                );
                continue;
            }
            Out::Ok(Err(e)) => {
                ctx.violation(
                    format!("get_utxos({}) without filter failed: {:?}", a.text, e),
                    None,
                    json!({"log": h.log}),
                );
                continue;
            }
            Out::Ok(Ok(x)) => x,
        };
        let tip = match world::h32(&first.tip_block_hash) {
            Some(t) if h.model.is_live(&t) => t,
            _ => {
                ctx.violation(
                    format!("get_utxos names a tip that is not an unstable block: {}", hex::encode(&first.tip_block_hash)),
                    None,
                    json!({"log": h.log}),
                );
                continue;
            }
        };
        let expected = h.model.utxos_of(&tip, &a.script);
        let observed = to_autxos(&all);
        let mixed = expected.iter().any(|u| u.height < stable_h)
            && expected.iter().any(|u| u.height >= stable_h);
        ctx.cov.count("c01_queries");
        if !expected.is_empty() {
            ctx.cov.count("c01_nonempty_answers");
        }
        if mixed {
            ctx.cov.count("c01_answers_mixing_stable_and_unstable");
        }
        if forks_live {
            ctx.cov.count("c01_queries_with_live_forks");
        }
        if pages > 1 {
            ctx.cov.count("c01_multi_page_answers");
        }
        ctx.cov.count(&format!("c01_kind_{}", a.kind));
        let nontrivial = !expected.is_empty() || !observed.is_empty();
        ctx.cov.eval(if nontrivial {
            Some(state_fp(h, &format!("{}|{}|{}", a.kind, expected.len(), short(&tip))))
        } else {
            None
        });
        if first.tip_height != h.model.blocks[&tip].height {
            ctx.violation(
                format!("tip_height {} does not match the height {} of the named tip", first.tip_height, h.model.blocks[&tip].height),
                None,
                json!({"log": h.log}),
            );
        }
        if let Some(d) = diff_utxos(&observed, &expected) {
            let sig = if only_shared_tx_height_differs(h, &observed, &expected) {
                Some("C01:shared-tx-reported-with-height-of-other-fork".to_string())
            } else {
                None
            };
            ctx.violation(
                format!("get_utxos({} [{}]) as of tip {} (h={}): {}", a.text, a.kind, short(&tip), first.tip_height, d),
                sig,
                json!({"observed": autxo_json(&observed), "expected": autxo_json(&expected), "log": h.log,
                        "stable_height": stable_h, "net": gen::net_name(net)}),
            );
        } else if !heights_non_increasing(&observed) {
            ctx.violation(
                format!("get_utxos({}) not in descending height order", a.text),
                None,
                json!({"observed": autxo_json(&observed), "log": h.log}),
            );
        }
        if ctx.cov.samples.len() < 3 && !expected.is_empty() {
            ctx.cov.sample(json!({"address": a.text, "kind": a.kind, "tip": short(&tip), "tip_height": first.tip_height,
                "utxos": autxo_json(&observed), "pages": pages, "tree": format!("{:?}", h.shape_sig())}));
        }
    }
}

// ------------------------------------------------------------------------------------ C02

pub fn check_c02(h: &mut Hist, ctx: &mut Ctx) {
    let net = h.net();
    let bests = h.model.best_chains();
    let tips: Vec<H> = bests.iter().map(|c| *c.last().unwrap()).collect();
    let longest = h.model.best_is_longest();
    ctx.cov.count("c02_states");
    if !longest {
        ctx.cov.count("c02_states_best_is_not_longest");
    }
    if bests.len() > 1 {
        ctx.cov.count("c02_states_with_ambiguous_tie");
    }
    {
        // exact-tie states: more than one leaf path with maximal (difficulty, length)
        let paths = h.model.leaf_paths();
        let key = |p: &Vec<H>| (p.iter().map(|x| h.model.blocks[x].difficulty).sum::<u128>(), p.len());
        let best = paths.iter().map(|(p, _)| key(p)).max().unwrap();
        if paths.iter().filter(|(p, _)| key(p) == best).count() > 1 {
            ctx.cov.count("c02_states_full_tie");
        }
        let bestd = paths.iter().map(|(p, _)| key(p).0).max().unwrap();
        if paths.iter().filter(|(p, _)| key(p).0 == bestd).count() > 1 {
            ctx.cov.count("c02_states_difficulty_tie");
        }
    }
    let forks = h.model.leaf_paths().len() > 1;
    ctx.cov.eval(if forks { Some(state_fp(h, "c02")) } else { None });

    let info = match world::info() {
        Out::Ok(i) => i,
        Out::Trap(m) => {
            ctx.violation(format!("get_blockchain_info trapped: {}", m), None, json!({"log": h.log}));
            return;
        }
    };
    let named = world::h32(&info.block_hash);
    let chosen: H = match named {
        Some(t) if tips.contains(&t) => t,
        _ => {
            ctx.violation(
                format!(
                    "get_blockchain_info names tip {} (height {}), the heaviest branch ends in {} (height {})",
                    hex::encode(&info.block_hash[..6.min(info.block_hash.len())]),
                    info.height,
                    short(&tips[0]),
                    h.model.blocks[&tips[0]].height
                ),
                None,
                json!({"log": h.log, "tree": format!("{:?}", h.shape_sig())}),
            );
            return;
        }
    };
    let tb = h.model.blocks[&chosen].clone();
    if info.height != tb.height || info.timestamp != tb.time || info.difficulty != tb.difficulty {
        ctx.violation(
            format!(
                "get_blockchain_info describes the tip as (height {}, time {}, difficulty {}), the block is (height {}, time {}, difficulty {})",
                info.height, info.timestamp, info.difficulty, tb.height, tb.time, tb.difficulty
            ),
            None,
            json!({"log": h.log}),
        );
    }
    // the other endpoints must answer for the same tip
    let a = h.rng.pick(&h.uni.addrs).clone();
    match world::get_utxos_query(&a.text, net, &Filter::None) {
        Out::Ok(Ok(r)) => {
            if world::h32(&r.tip_block_hash) != Some(chosen) || r.tip_height != tb.height {
                ctx.violation(
                    format!(
                        "unfiltered get_utxos answers for tip {} (height {}), get_blockchain_info for {} (height {})",
                        hex::encode(&r.tip_block_hash[..6.min(r.tip_block_hash.len())]), r.tip_height, short(&chosen), tb.height
                    ),
                    Some("C02:unfiltered-get_utxos-cut-below-heaviest-tip".into()),
                    json!({"log": h.log, "tree": format!("{:?}", h.shape_sig())}),
                );
            }
        }
        other => ctx.violation(format!("unfiltered get_utxos failed: {:?}", other), None, json!({"log": h.log})),
    }
    let want: u64 = h.model.utxos_of(&chosen, &a.script).iter().map(|u| u.value).sum();
    match world::get_balance_query(&a.text, net, None) {
        Out::Ok(Ok(b)) => {
            if b != want {
                ctx.violation(
                    format!("get_balance({}) = {} but the ledger at the best tip holds {}", a.text, b, want),
                    None,
                    json!({"log": h.log}),
                );
            }
        }
        other => ctx.violation(format!("get_balance failed: {:?}", other), None, json!({"log": h.log})),
    }
    let start = tb.height.saturating_sub(3);
    match world::get_block_headers(start, None, net) {
        Out::Ok(Ok(r)) => {
            let last_ok = r.block_headers.last().map(|x| x == &tb.header).unwrap_or(false);
            if r.tip_height != tb.height || !last_ok {
                ctx.violation(
                    format!("get_block_headers({}, none) ends at tip_height {} with a header that is {}the best tip's (best height {})",
                        start, r.tip_height, if last_ok { "" } else { "not " }, tb.height),
                    None,
                    json!({"log": h.log}),
                );
            }
        }
        other => ctx.violation(format!("get_block_headers failed: {:?}", other), None, json!({"log": h.log})),
    }
    if ctx.cov.samples.len() < 3 && forks {
        ctx.cov.sample(json!({"tree_preorder_(relheight,difficulty)": format!("{:?}", h.shape_sig()),
            "best_tip": short(&chosen), "height": tb.height, "best_is_longest": longest}));
    }
}

// ------------------------------------------------------------------------------------ C04

pub fn check_c04(h: &mut Hist, ctx: &mut Ctx, limit: Option<usize>, max_addrs: usize) {
    let net = h.net();
    let bests = h.model.best_chains();
    let len = bests[0].len() as u32;
    let fork_free = h.model.leaf_paths().len() == 1;
    let mut addrs = h.uni.addrs.clone();
    h.rng.shuffle(&mut addrs);
    addrs.truncate(max_addrs);
    for a in addrs.iter() {
        for c in 1..=len + 2 {
            let res = world::all_pages(&a.text, net, &Filter::MinConf(c), limit);
            ctx.cov.count("c04_pairs");
            let too_large = c > len;
            match res {
                Out::Trap(m) => {
                    ctx.violation(format!("get_utxos({}, c={}) trapped: {}", a.text, c, m), None, json!({"log": h.log}));
                }
                Out::Ok(Err(GetUtxosError::MinConfirmationsTooLarge { .. })) => {
                    ctx.cov.count("c04_error_pairs");
                    ctx.cov.eval(Some(state_fp(h, &format!("c04err|{}", c))));
                    if !too_large {
                        ctx.violation(
                            format!("c={} refused as too large although the best chain has {} unstable blocks", c, len),
                            None,
                            json!({"log": h.log}),
                        );
                    }
                }
                Out::Ok(Err(e)) => {
                    ctx.violation(format!("get_utxos({}, c={}) failed: {:?}", a.text, c, e), None, json!({"log": h.log}));
                }
                Out::Ok(Ok((first, all, _pages, _))) => {
                    if too_large {
                        ctx.violation(
                            format!("c={} exceeds the {} unstable best-chain blocks but was answered", c, len),
                            None,
                            json!({"log": h.log}),
                        );
                        continue;
                    }
                    // admissible cut blocks (one per admissible best chain)
                    let cuts: Vec<H> = bests.iter().filter_map(|ch| h.model.cut_block(ch, c).ok()).collect();
                    let named = world::h32(&first.tip_block_hash);
                    let cut = match named {
                        Some(t) if cuts.contains(&t) => t,
                        _ => {
                            ctx.violation(
                                format!(
                                    "c={}: response names tip {} (height {}), the last sufficiently buried block is {} (height {})",
                                    c, hex::encode(&first.tip_block_hash[..6.min(first.tip_block_hash.len())]), first.tip_height,
                                    short(&cuts[0]), h.model.blocks[&cuts[0]].height
                                ),
                                None,
                                json!({"log": h.log, "tree": format!("{:?}", h.shape_sig())}),
                            );
                            continue;
                        }
                    };
                    let cut_h = h.model.blocks[&cut].height;
                    if cut != *bests[0].last().unwrap() && cut != bests[0][0] {
                        ctx.cov.count("c04_cut_strictly_inside_chain");
                    }
                    if !fork_free {
                        ctx.cov.count("c04_pairs_on_forked_trees");
                    }
                    if fork_free {
                        // closed form: H - c + 1
                        let tip_h = h.model.blocks[bests[0].last().unwrap()].height;
                        if cut_h != tip_h + 1 - c {
                            ctx.violation(
                                format!("fork-free chain of height {}: c={} must cut at height {}, model cut is {}", tip_h, c, tip_h + 1 - c, cut_h),
                                None,
                                json!({"log": h.log}),
                            );
                        }
                    }
                    if first.tip_height != cut_h {
                        ctx.violation(
                            format!("c={}: tip_height {} but the named block has height {}", c, first.tip_height, cut_h),
                            None,
                            json!({"log": h.log}),
                        );
                    }
                    let expected = h.model.utxos_of(&cut, &a.script);
                    let observed = to_autxos(&all);
                    ctx.cov.eval(Some(state_fp(h, &format!("c04|{}|{}|{}", c, a.kind, expected.len()))));
                    if let Some(d) = diff_utxos(&observed, &expected) {
                        let sig = if only_shared_tx_height_differs(h, &observed, &expected) {
                            Some("C01:shared-tx-reported-with-height-of-other-fork".to_string())
                        } else {
                            None
                        };
                        ctx.violation(
                            format!("get_utxos({}, c={}) as of {} (h={}): {}", a.text, c, short(&cut), cut_h, d),
                            sig,
                            json!({"observed": autxo_json(&observed), "expected": autxo_json(&expected), "log": h.log}),
                        );
                    } else if !heights_non_increasing(&observed) {
                        ctx.violation(format!("get_utxos({}, c={}) not in descending height order", a.text, c), None, json!({"log": h.log}));
                    }
                    if ctx.cov.samples.len() < 3 && !expected.is_empty() && !fork_free {
                        ctx.cov.sample(json!({"address": a.text, "c": c, "cut_height": cut_h, "best_len": len,
                            "tree": format!("{:?}", h.shape_sig()), "utxos": autxo_json(&observed)}));
                    }
                }
            }
        }
    }
}

// ------------------------------------------------------------------------------------ C05

fn bal_class(e: &GetBalanceError) -> &'static str {
    match e {
        GetBalanceError::MalformedAddress => "malformed",
        GetBalanceError::AddressForWrongNetwork { .. } => "wrong_network",
        GetBalanceError::MinConfirmationsTooLarge { .. } => "too_large",
    }
}
fn utx_class(e: &GetUtxosError) -> &'static str {
    match e {
        GetUtxosError::MalformedAddress => "malformed",
        GetUtxosError::AddressForWrongNetwork { .. } => "wrong_network",
        GetUtxosError::MinConfirmationsTooLarge { .. } => "too_large",
        GetUtxosError::UnknownTipBlockHash { .. } => "unknown_tip",
        GetUtxosError::MalformedPage { .. } => "malformed_page",
    }
}

pub fn check_c05(h: &mut Hist, ctx: &mut Ctx, limit: Option<usize>, extra_addrs: &[String], max_addrs: usize) {
    let net = h.net();
    let bests = h.model.best_chains();
    let len = bests[0].len() as u32;
    let forked = h.model.leaf_paths().len() > 1;
    let mut addrs: Vec<(String, &'static str)> = h.uni.addrs.iter().map(|a| (a.text.clone(), a.kind)).collect();
    h.rng.shuffle(&mut addrs);
    addrs.truncate(max_addrs);
    for e in extra_addrs {
        addrs.push((e.clone(), "hostile"));
    }
    for (text, kind) in addrs.iter() {
        let mut cs: Vec<Option<u32>> = vec![None];
        for c in 0..=len + 2 {
            cs.push(Some(c));
        }
        cs.push(Some(u32::MAX));
        for c in cs {
            let f = match c {
                None => Filter::None,
                Some(c) => Filter::MinConf(c),
            };
            let bq = world::get_balance_query(text, net, c);
            let bu = world::get_balance_update(text, net, c);
            let uq = world::all_pages(text, net, &f, limit);
            ctx.cov.count("c05_comparisons");
            if bq != bu {
                ctx.violation(
                    format!("get_balance query {:?} differs from update {:?} for ({}, {:?})", bq, bu, text, c),
                    None,
                    json!({"log": h.log}),
                );
            }
            // update variant of get_utxos: first page must equal the query variant's first page
            let uu = world::get_utxos_update(text, net, &f);
            let uq1 = world::get_utxos_query(text, net, &f);
            if uu != uq1 {
                ctx.violation(
                    format!("get_utxos update and query variants differ for ({}, {:?})", text, c),
                    None,
                    json!({"log": h.log, "update": format!("{:?}", uu), "query": format!("{:?}", uq1)}),
                );
            }
            match (&bq, &uq) {
                (Out::Trap(m), _) | (_, Out::Trap(m)) => {
                    ctx.violation(format!("trap for ({}, {:?}): {}", text, c, m), None, json!({"log": h.log}));
                }
                (Out::Ok(Err(be)), Out::Ok(Err(ue))) => {
                    ctx.cov.count("c05_both_error");
                    ctx.cov.eval(Some(fp_str(&format!("c05err|{}|{}|{}", bal_class(be), kind, c.is_some()))));
                    if bal_class(be) != utx_class(ue) {
                        ctx.violation(
                            format!("({}, {:?}): get_balance fails with {:?}, get_utxos with {:?}", text, c, be, ue),
                            None,
                            json!({"log": h.log}),
                        );
                    }
                }
                (Out::Ok(Ok(b)), Out::Ok(Ok((first, all, _, _)))) => {
                    let sum: u64 = all.iter().map(|u| u.value).sum();
                    let nontrivial = *b > 0 || sum > 0;
                    ctx.cov.eval(if nontrivial {
                        Some(state_fp(h, &format!("c05|{:?}|{}|{}", c, kind, sum)))
                    } else {
                        None
                    });
                    if forked && c.unwrap_or(0) >= 2 && c.unwrap_or(0) <= len {
                        ctx.cov.count("c05_forked_c_ge_2");
                    }
                    if *b != sum {
                        // defect model: balance counts confirmations as height difference
                        let mut sig = None;
                        if let Some(cv) = c {
                            if cv >= 1 && cv <= len {
                                if let Some(a) = h.uni.addrs.iter().find(|a| &a.text == text).cloned() {
                                    for ch in bests.iter() {
                                        let idx = (len - cv) as usize;
                                        let by_height: u64 = h.model.utxos_of(&ch[idx], &a.script).iter().map(|u| u.value).sum();
                                        if by_height == *b {
                                            sig = Some("C05:balance-counts-confirmations-by-height-difference".to_string());
                                        }
                                    }
                                }
                            }
                        }
                        ctx.violation(
                            format!(
                                "({} [{}], c={:?}): get_balance = {} but the UTXOs reported for the same request sum to {} (tip named: height {})",
                                text, kind, c, b, sum, first.tip_height
                            ),
                            sig,
                            json!({"log": h.log, "tree": format!("{:?}", h.shape_sig())}),
                        );
                    }
                    if ctx.cov.samples.len() < 3 && nontrivial {
                        ctx.cov.sample(json!({"address": text, "c": c, "balance": b, "utxo_sum": sum, "utxos": all.len(),
                            "tree": format!("{:?}", h.shape_sig())}));
                    }
                }
                (Out::Ok(b), Out::Ok(u)) => {
                    ctx.violation(
                        format!("({}, {:?}): get_balance -> {:?} but get_utxos -> {}", text, c, b,
                            match u { Ok(_) => "Ok".to_string(), Err(e) => format!("{:?}", e) }),
                        None,
                        json!({"log": h.log}),
                    );
                }
            }
        }
    }
}

// ------------------------------------------------------------------------------------ C07

fn hdr_err_class(e: &GetBlockHeadersError) -> &'static str {
    match e {
        GetBlockHeadersError::StartHeightDoesNotExist { .. } => "start_missing",
        GetBlockHeadersError::EndHeightDoesNotExist { .. } => "end_missing",
        GetBlockHeadersError::StartHeightLargerThanEndHeight { .. } => "start_gt_end",
    }
}

/// Checks one range against the admissible header chains. `paused` marks a query at a pause point.
pub fn check_range(h: &Hist, ctx: &mut Ctx, chains: &[Vec<Vec<u8>>], start: u32, end: Option<u32>, paused: bool) {
    let net = h.net();
    let tip = chains[0].len() as u32 - 1;
    let res = world::get_block_headers(start, end, net);
    ctx.cov.count("c07_ranges");
    if paused {
        ctx.cov.count("c07_ranges_at_pause_points");
    }
    let mut admissible: Vec<&'static str> = vec![];
    if start > tip {
        admissible.push("start_missing");
    }
    if let Some(e) = end {
        if e < start {
            admissible.push("start_gt_end");
        }
        if e > tip {
            admissible.push("end_missing");
        }
    }
    let stable_h = h.model.stable_height();
    match res {
        Out::Trap(m) => ctx.violation(format!("get_block_headers({}, {:?}) trapped: {}", start, end, m), None, json!({"log": h.log})),
        Out::Ok(Err(e)) => {
            ctx.cov.count("c07_class_error");
            ctx.cov.eval(Some(fp_str(&format!("c07err|{}|{}|{:?}|{}", hdr_err_class(&e), start, end, tip))));
            if !admissible.contains(&hdr_err_class(&e)) {
                ctx.violation(
                    format!("get_block_headers({}, {:?}) with tip {} failed with {:?}; admissible: {:?}", start, end, tip, e, admissible),
                    None,
                    json!({"log": h.log}),
                );
            }
        }
        Out::Ok(Ok(r)) => {
            if !admissible.is_empty() {
                ctx.violation(
                    format!("get_block_headers({}, {:?}) with tip {} answered although the range is outside the chain", start, end, tip),
                    None,
                    json!({"log": h.log}),
                );
                return;
            }
            let last = end.unwrap_or(tip).min(start + 99);
            let class = if last < stable_h {
                "stable"
            } else if start >= stable_h {
                "unstable"
            } else {
                "straddling"
            };
            ctx.cov.count(&format!("c07_class_{}", class));
            if end.unwrap_or(tip) > start + 99 {
                ctx.cov.count("c07_class_truncated");
            }
            ctx.cov.eval(Some(fp_str(&format!("c07|{}|{}|{}|{}|{}|{}", class, start, last, tip, stable_h, paused))));
            let ok = chains.iter().any(|ch| {
                let want: Vec<Vec<u8>> = ch[start as usize..=last as usize].to_vec();
                want == r.block_headers
            });
            if !ok {
                let want: &Vec<Vec<u8>> = &chains[0];
                let n_want = (last - start + 1) as usize;
                let mut why = format!("{} headers returned, {} expected", r.block_headers.len(), n_want);
                if r.block_headers.iter().any(|x| x.len() != 80) {
                    why.push_str("; a header is not 80 bytes");
                }
                // duplicates?
                let mut dups = 0;
                for w in r.block_headers.windows(2) {
                    if w[0] == w[1] {
                        dups += 1;
                    }
                }
                if dups > 0 {
                    why.push_str(&format!("; {} header(s) appear twice in a row", dups));
                }
                let sig = if paused && dups == 1 && r.block_headers.len() == n_want + 1 {
                    // known defect model: the header of the block being ingested is served from both sources
                    let mut dedup = r.block_headers.clone();
                    dedup.dedup();
                    if dedup == want[start as usize..=last as usize].to_vec() {
                        Some("C07:header-of-block-being-ingested-returned-twice".to_string())
                    } else {
                        None
                    }
                } else {
                    None
                };
                ctx.violation(
                    format!("get_block_headers({}, {:?}) [{} range{}] is not the best chain's header list: {}",
                        start, end, class, if paused { ", ingestion paused" } else { "" }, why),
                    sig,
                    json!({"log": h.log, "stable_height": stable_h, "tip": tip}),
                );
            } else {
                // linkage (redundant with equality, kept as an independent structural check)
                for w in r.block_headers.windows(2) {
                    let hh = crate::parse::sha256d(&w[0]);
                    if w[1][4..36] != hh {
                        ctx.violation("headers not linked by previous-hash".into(), None, json!({"log": h.log}));
                    }
                }
            }
            if ctx.cov.samples.len() < 3 && class == "straddling" {
                ctx.cov.sample(json!({"start": start, "end": end, "tip": tip, "stable_height": stable_h, "returned": r.block_headers.len(), "paused": paused}));
            }
        }
    }
}

pub fn check_c07(h: &mut Hist, ctx: &mut Ctx, paused: bool, exhaustive_upto: u32) {
    let bests = h.model.best_chains();
    let chains: Vec<Vec<Vec<u8>>> = bests.iter().map(|b| h.model.header_chain(b)).collect();
    let tip = chains[0].len() as u32 - 1;
    if tip <= exhaustive_upto {
        for start in 0..=tip + 2 {
            check_range(h, ctx, &chains, start, None, paused);
            let lo = start.saturating_sub(1);
            for end in lo..=tip + 2 {
                check_range(h, ctx, &chains, start, Some(end), paused);
            }
        }
    } else {
        let sh = h.model.stable_height();
        for _ in 0..40 {
            let start = match h.rng.below(4) {
                0 => h.rng.range(0, tip as u64 + 2) as u32,
                1 => sh.saturating_sub(h.rng.range(0, 3) as u32),
                2 => sh + h.rng.range(0, 3) as u32,
                _ => tip.saturating_sub(h.rng.range(0, 120) as u32),
            };
            let end = match h.rng.below(4) {
                0 => None,
                1 => Some(start + h.rng.range(0, 130) as u32),
                2 => Some(sh + h.rng.range(0, 2) as u32),
                _ => Some(h.rng.range(0, tip as u64 + 2) as u32),
            };
            check_range(h, ctx, &chains, start, end, paused);
        }
    }
}

// ------------------------------------------------------------------------------------ C20

/// Structural invariant of the bookkeeping for unstable blocks, recomputed from the model's live tree.
pub fn check_c20(h: &mut Hist, ctx: &mut Ctx) {
    use std::collections::{BTreeMap, BTreeSet};
    let bk = world::bookkeeping();
    let to_h = |b: &ic_btc_types::BlockHash| -> H {
        let mut a = [0u8; 32];
        a.copy_from_slice(b.as_bytes());
        a
    };
    let live: Vec<H> = h.model.live_preorder();
    let live_set: BTreeSet<H> = live.iter().cloned().collect();
    ctx.cov.count("c20_snapshots");
    let mut problems: Vec<String> = vec![];

    let tree: Vec<H> = bk.tree.iter().map(|n| to_h(&n.0)).collect();
    let tree_set: BTreeSet<H> = tree.iter().cloned().collect();
    if tree_set != live_set || tree.len() != live.len() {
        problems.push(format!("tree holds {} blocks, {} are live", tree.len(), live.len()));
    }
    let cache_set: BTreeSet<H> = bk.block_cache_keys.iter().map(to_h).collect();
    if cache_set != live_set {
        let extra = cache_set.difference(&live_set).count();
        let missing = live_set.difference(&cache_set).count();
        problems.push(format!("block-body cache: {} leaked, {} missing", extra, missing));
    }
    for (name, m) in [("added", &bk.added), ("removed", &bk.removed)] {
        let keys: BTreeSet<H> = m.iter().map(|(b, _)| to_h(b)).collect();
        if keys != live_set {
            problems.push(format!(
                "{}-outpoints map: {} leaked, {} missing",
                name,
                keys.difference(&live_set).count(),
                live_set.difference(&keys).count()
            ));
        }
    }
    // expected reference counts and per-block address deltas, recomputed from the live blocks
    let script_to_addr: BTreeMap<Vec<u8>, String> =
        h.uni.addrs.iter().map(|a| (a.script.clone(), a.text.clone())).collect();
    let mut expect_count: BTreeMap<(H, u32), u32> = BTreeMap::new();
    let mut expect_txout: BTreeMap<(H, u32), (u64, Vec<u8>)> = BTreeMap::new();
    let mut max_ref = 0u32;
    for b in live.iter() {
        let blk = h.model.blocks[b].clone();
        let parent_ledger = if *b == h.model.anchor {
            h.model.stable_ledger.clone()
        } else {
            h.model.ledger_at(&blk.parent)
        };
        let mut local: BTreeMap<(H, u32), (u64, Vec<u8>)> = BTreeMap::new();
        let mut exp_added: BTreeMap<String, BTreeSet<(H, u32)>> = BTreeMap::new();
        let mut exp_removed: BTreeMap<String, BTreeSet<(H, u32)>> = BTreeMap::new();
        for tx in &blk.txs {
            if !tx.is_coinbase() {
                for i in &tx.inputs {
                    *expect_count.entry(*i).or_insert(0) += 1;
                    let src = local
                        .get(i)
                        .cloned()
                        .or_else(|| parent_ledger.get(i).map(|u| (u.value, u.script.as_ref().clone())));
                    if let Some((v, s)) = src {
                        if let Some(a) = script_to_addr.get(&s) {
                            exp_removed.entry(a.clone()).or_default().insert(*i);
                        }
                        expect_txout.insert(*i, (v, s));
                    }
                }
            }
            for (vout, (v, s)) in tx.outputs.iter().enumerate() {
                let k = (tx.txid, vout as u32);
                *expect_count.entry(k).or_insert(0) += 1;
                local.insert(k, (*v, s.as_ref().clone()));
                expect_txout.insert(k, (*v, s.as_ref().clone()));
                if let Some(a) = script_to_addr.get(s.as_ref()) {
                    exp_added.entry(a.clone()).or_default().insert(k);
                }
            }
        }
        // compare per-block deltas
        for (name, m, exp) in [("added", &bk.added, &exp_added), ("removed", &bk.removed, &exp_removed)] {
            if let Some((_, lists)) = m.iter().find(|(bh, _)| to_h(bh) == *b) {
                let got: BTreeMap<String, BTreeSet<(H, u32)>> = lists
                    .iter()
                    .map(|(a, ops)| {
                        (
                            a.clone(),
                            ops.iter()
                                .map(|o| {
                                    let mut t = [0u8; 32];
                                    t.copy_from_slice(o.txid.as_bytes());
                                    (t, o.vout)
                                })
                                .collect(),
                        )
                    })
                    .filter(|(_, s): &(String, BTreeSet<(H, u32)>)| !s.is_empty())
                    .collect();
                if &got != exp {
                    let render = |m: &BTreeMap<String, BTreeSet<(H, u32)>>| -> String {
                        m.iter().map(|(a, s)| format!("{}:[{}]", &a[..a.len().min(14)], s.iter().map(|(t, v)| format!("{}:{}", hex::encode(&t[..3]), v)).collect::<Vec<_>>().join(","))).collect::<Vec<_>>().join(" ")
                    };
                    problems.push(format!("{}-outpoints of block {} differ from the block's content (cached {{{}}} vs block {{{}}})", name, short(b), render(&got), render(exp)));
                }
            }
        }
    }
    let mut got_count: BTreeMap<(H, u32), u32> = BTreeMap::new();
    for (o, value, script, _height, count) in bk.tx_outs.iter() {
        let mut t = [0u8; 32];
        t.copy_from_slice(o.txid.as_bytes());
        let k = (t, o.vout);
        got_count.insert(k, *count);
        max_ref = max_ref.max(*count);
        if *count == 0 {
            problems.push("cached tx out with reference count 0".into());
        }
        if let Some((v, s)) = expect_txout.get(&k) {
            if v != value || s != script {
                problems.push("cached tx out has wrong value or script".into());
            }
        }
    }
    if got_count != expect_count {
        let leaked = got_count.keys().filter(|k| !expect_count.contains_key(*k)).count();
        let missing = expect_count.keys().filter(|k| !got_count.contains_key(*k)).count();
        let wrong = got_count
            .iter()
            .filter(|(k, c)| expect_count.get(*k).map(|e| e != *c).unwrap_or(false))
            .count();
        problems.push(format!(
            "cached tx outs: {} unreferenced (leaked), {} missing, {} with a wrong reference count",
            leaked, missing, wrong
        ));
    }
    ctx.cov.max("max_refcount_seen", max_ref as u64);
    if max_ref > 2 {
        ctx.cov.count("c20_snapshots_with_outpoints_shared_by_forks");
    }
    // per-block utxo deltas (kept outside the tree so that they survive upgrades)
    {
        let keys: BTreeSet<H> = bk.utxo_deltas.iter().map(|(b, _)| to_h(b)).collect();
        if keys != live_set {
            problems.push(format!(
                "utxo-delta map: {} leaked, {} missing",
                keys.difference(&live_set).count(),
                live_set.difference(&keys).count()
            ));
        }
        for (b, d) in bk.utxo_deltas.iter() {
            let hh = to_h(b);
            if let Some(blk) = h.model.blocks.get(&hh) {
                let want: i64 = blk
                    .txs
                    .iter()
                    .map(|t| t.outputs.len() as i64 - if t.is_coinbase() { 0 } else { t.inputs.len() as i64 })
                    .sum();
                if want != *d {
                    problems.push(format!("utxo delta of block {} is {}, its transactions give {}", short(&hh), d, want));
                }
            }
        }
    }
    // announced headers
    let sh = h.model.stable_height();
    let by_hash: BTreeSet<H> = bk.next_by_hash.iter().map(|(b, _, _)| to_h(b)).collect();
    let by_height: BTreeSet<H> = bk.next_by_height.iter().flat_map(|(_, v)| v.iter().map(to_h)).collect();
    if by_hash != by_height {
        problems.push("announced-header indexes disagree".into());
    }
    // the height index is what the sync decision reads (highest announced height): a height with
    // no header left, or a header filed under another height than its own, falsifies that reading
    for (height, v) in bk.next_by_height.iter() {
        if v.is_empty() {
            problems.push(format!("the announced-header height index keeps height {} although no header is left at it", height));
        }
        for b in v.iter() {
            if let Some((_, hh, _)) = bk.next_by_hash.iter().find(|(x, _, _)| x == b) {
                if hh != height {
                    problems.push(format!("an announced header of height {} is filed under height {}", hh, height));
                }
            }
        }
    }
    for (b, height, _) in bk.next_by_hash.iter() {
        if live_set.contains(&to_h(b)) {
            problems.push("announced header kept although its block arrived".into());
        }
        if *height <= sh {
            problems.push(format!("announced header at height {} kept although the stable height is {}", height, sh));
        }
    }
    ctx.cov.add("c20_announced_headers_seen", bk.next_by_hash.len() as u64);
    // where the workload tracks announcements: everything certainly stored is present (a later
    // sync decision needs it), and nothing is present that was never offered
    if !h.ann_may.is_empty() || !h.ann_must.is_empty() {
        for x in h.ann_must.iter() {
            if !by_hash.contains(&x.hash) {
                problems.push(format!("announced header at height {} that must still be stored is missing", x.height));
            }
        }
        for b in by_hash.iter() {
            if !h.ann_may.iter().any(|x| &x.hash == b) {
                problems.push("an announced header is stored that was never offered (or was already delivered)".into());
            }
        }
    }
    // cached tip depths
    let mut tips: Vec<usize> = h.model.leaf_paths().iter().map(|(p, _)| p.len()).collect();
    tips.sort();
    let mut got_tips = bk.tip_depths_cache.clone();
    got_tips.sort();
    if tips != got_tips {
        problems.push(format!("cached tip depths {:?}, tree has {:?}", got_tips, tips));
    }
    // per-block cached metrics
    for (b, _, _, fee_rates, utxo_delta) in bk.tree.iter() {
        let hh = to_h(b);
        if !h.model.blocks.contains_key(&hh) || !live_set.contains(&hh) {
            continue;
        }
        if let Some(fr) = fee_rates {
            let want = h.model.fee_rates_of(&hh);
            if &want != fr {
                problems.push(format!("cached fee rates of block {} differ from its transactions", short(&hh)));
            }
            let blk = &h.model.blocks[&hh];
            let d: i64 = blk
                .txs
                .iter()
                .map(|t| t.outputs.len() as i64 - if t.is_coinbase() { 0 } else { t.inputs.len() as i64 })
                .sum();
            if d != *utxo_delta {
                problems.push(format!("cached utxo delta of block {} is {}, its transactions give {}", short(&hh), utxo_delta, d));
            }
        }
    }
    let forks = h.model.leaf_paths().len();
    ctx.cov.eval(Some(state_fp(h, &format!("c20|{}|{}", forks, bk.tx_outs.len()))));
    if !problems.is_empty() {
        problems.dedup();
        ctx.violation(
            format!("bookkeeping of unstable blocks is not exact: {}", problems.join("; ")),
            None,
            json!({"log": h.log, "tree": format!("{:?}", h.shape_sig())}),
        );
    }
    if ctx.cov.samples.len() < 3 && forks > 1 {
        ctx.cov.sample(json!({"live_blocks": live.len(), "forks": forks, "cached_tx_outs": bk.tx_outs.len(), "max_refcount": max_ref,
            "tip_depths": got_tips, "tree": format!("{:?}", h.shape_sig())}));
    }
}
