//! Own strict consensus parser for transactions and blocks (BIP144), used by the
//! reference model (ledger, vsize, txids) and by the C19 oracle. Shares no code
//! with the canister or with the `bitcoin` crate's decoder; only SHA-256 is
//! borrowed as a primitive.

use bitcoin::hashes::{sha256d, Hash};
use std::rc::Rc;

pub type H = [u8; 32];

pub fn sha256d(data: &[u8]) -> H {
    sha256d::Hash::hash(data).to_byte_array()
}

#[derive(Clone, Debug, PartialEq)]
pub struct PTx {
    pub txid: H,
    pub wtxid: H,
    pub version: i32,
    pub inputs: Vec<(H, u32)>,
    pub script_sigs: Vec<Vec<u8>>,
    pub sequences: Vec<u32>,
    pub outputs: Vec<(u64, Rc<Vec<u8>>)>,
    pub witnesses: Vec<Vec<Vec<u8>>>,
    pub lock_time: u32,
    pub segwit: bool,
    pub base_size: usize,
    pub total_size: usize,
}

impl PTx {
    pub fn is_coinbase(&self) -> bool {
        self.inputs.len() == 1 && self.inputs[0].0 == [0u8; 32] && self.inputs[0].1 == u32::MAX
    }
    pub fn weight(&self) -> u64 {
        (self.base_size * 3 + self.total_size) as u64
    }
    pub fn vsize(&self) -> u64 {
        (self.weight() + 3) / 4
    }
}

#[derive(Clone, Debug, PartialEq)]
pub enum PErr {
    Eof,
    NonCanonicalVarint,
    BadFlag,
    Trailing(usize),
    SegwitNoWitness,
    TooLarge,
}

pub struct Cur<'a> {
    pub b: &'a [u8],
    pub p: usize,
}

impl<'a> Cur<'a> {
    pub fn new(b: &'a [u8]) -> Self {
        Cur { b, p: 0 }
    }
    fn take(&mut self, n: usize) -> Result<&'a [u8], PErr> {
        if self.b.len() - self.p < n {
            return Err(PErr::Eof);
        }
        let s = &self.b[self.p..self.p + n];
        self.p += n;
        Ok(s)
    }
    fn u8(&mut self) -> Result<u8, PErr> {
        Ok(self.take(1)?[0])
    }
    fn u32(&mut self) -> Result<u32, PErr> {
        let s = self.take(4)?;
        Ok(u32::from_le_bytes([s[0], s[1], s[2], s[3]]))
    }
    fn u64(&mut self) -> Result<u64, PErr> {
        let s = self.take(8)?;
        let mut a = [0u8; 8];
        a.copy_from_slice(s);
        Ok(u64::from_le_bytes(a))
    }
    fn varint(&mut self) -> Result<u64, PErr> {
        let f = self.u8()?;
        match f {
            0xfd => {
                let s = self.take(2)?;
                let v = u16::from_le_bytes([s[0], s[1]]) as u64;
                if v < 0xfd {
                    return Err(PErr::NonCanonicalVarint);
                }
                Ok(v)
            }
            0xfe => {
                let v = self.u32()? as u64;
                if v <= 0xffff {
                    return Err(PErr::NonCanonicalVarint);
                }
                Ok(v)
            }
            0xff => {
                let v = self.u64()?;
                if v <= 0xffff_ffff {
                    return Err(PErr::NonCanonicalVarint);
                }
                Ok(v)
            }
            x => Ok(x as u64),
        }
    }
    fn bytes_var(&mut self) -> Result<Vec<u8>, PErr> {
        let n = self.varint()?;
        if n > 4_000_000 {
            return Err(PErr::TooLarge);
        }
        Ok(self.take(n as usize)?.to_vec())
    }
}

fn put_varint(out: &mut Vec<u8>, v: u64) {
    if v < 0xfd {
        out.push(v as u8);
    } else if v <= 0xffff {
        out.push(0xfd);
        out.extend_from_slice(&(v as u16).to_le_bytes());
    } else if v <= 0xffff_ffff {
        out.push(0xfe);
        out.extend_from_slice(&(v as u32).to_le_bytes());
    } else {
        out.push(0xff);
        out.extend_from_slice(&v.to_le_bytes());
    }
}

/// Parses one transaction at the cursor.
/// `allow_legacy_zero_inputs`: interpret `00` after the version as "zero inputs"
/// when it is not followed by the segwit flag `01`.
pub fn parse_tx_at(c: &mut Cur) -> Result<PTx, PErr> {
    let start = c.p;
    let version = c.u32()? as i32;
    let mark = c.p;
    let mut segwit = false;
    let n_in_first = c.varint()?;
    let n_in;
    if n_in_first == 0 {
        // either the segwit marker or a transaction without inputs
        let flag = c.u8()?;
        if flag == 1 {
            segwit = true;
            n_in = c.varint()?;
        } else if flag == 0 {
            // legacy encoding with zero inputs and zero outputs: vin=0, vout=0
            // (flag byte was really the output count)
            c.p = mark;
            let _ = c.varint()?;
            n_in = 0;
        } else {
            return Err(PErr::BadFlag);
        }
    } else {
        n_in = n_in_first;
    }
    if n_in > 100_000 {
        return Err(PErr::TooLarge);
    }
    let mut inputs = vec![];
    let mut script_sigs = vec![];
    let mut sequences = vec![];
    for _ in 0..n_in {
        let txid: H = {
            let s = c.take(32)?;
            let mut a = [0u8; 32];
            a.copy_from_slice(s);
            a
        };
        let vout = c.u32()?;
        let sig = c.bytes_var()?;
        let seq = c.u32()?;
        inputs.push((txid, vout));
        script_sigs.push(sig);
        sequences.push(seq);
    }
    let n_out = c.varint()?;
    if n_out > 1_000_000 {
        return Err(PErr::TooLarge);
    }
    let mut outputs = vec![];
    for _ in 0..n_out {
        let v = c.u64()?;
        let s = c.bytes_var()?;
        outputs.push((v, Rc::new(s)));
    }
    let mut witnesses = vec![];
    if segwit {
        let mut any = false;
        for _ in 0..n_in {
            let n = c.varint()?;
            if n > 100_000 {
                return Err(PErr::TooLarge);
            }
            let mut items = vec![];
            for _ in 0..n {
                items.push(c.bytes_var()?);
            }
            if !items.is_empty() {
                any = true;
            }
            witnesses.push(items);
        }
        if !any {
            // BIP144: a segwit-serialised transaction must carry at least one witness
            return Err(PErr::SegwitNoWitness);
        }
    }
    let lock_time = c.u32()?;
    let total_size = c.p - start;
    // non-witness serialisation
    let mut base = vec![];
    base.extend_from_slice(&(version as u32).to_le_bytes());
    put_varint(&mut base, inputs.len() as u64);
    for i in 0..inputs.len() {
        base.extend_from_slice(&inputs[i].0);
        base.extend_from_slice(&inputs[i].1.to_le_bytes());
        put_varint(&mut base, script_sigs[i].len() as u64);
        base.extend_from_slice(&script_sigs[i]);
        base.extend_from_slice(&sequences[i].to_le_bytes());
    }
    put_varint(&mut base, outputs.len() as u64);
    for (v, s) in &outputs {
        base.extend_from_slice(&v.to_le_bytes());
        put_varint(&mut base, s.len() as u64);
        base.extend_from_slice(s);
    }
    base.extend_from_slice(&lock_time.to_le_bytes());
    let txid = sha256d(&base);
    let wtxid = sha256d(&c.b[start..c.p]);
    Ok(PTx {
        txid,
        wtxid,
        version,
        inputs,
        script_sigs,
        sequences,
        outputs,
        witnesses,
        lock_time,
        segwit,
        base_size: base.len(),
        total_size,
    })
}

/// Strict: exactly one transaction, all bytes consumed.
pub fn parse_tx_strict(b: &[u8]) -> Result<PTx, PErr> {
    let mut c = Cur::new(b);
    let tx = parse_tx_at(&mut c)?;
    if c.p != b.len() {
        return Err(PErr::Trailing(b.len() - c.p));
    }
    Ok(tx)
}

#[derive(Clone, Debug)]
pub struct PBlock {
    pub hash: H,
    pub header: Vec<u8>,
    pub prev: H,
    pub merkle_root: H,
    pub time: u32,
    pub bits: u32,
    pub txs: Vec<PTx>,
    pub consumed: usize,
}

pub fn parse_header(b: &[u8]) -> Option<(H, H, H, u32, u32)> {
    if b.len() < 80 {
        return None;
    }
    let hash = sha256d(&b[..80]);
    let mut prev = [0u8; 32];
    prev.copy_from_slice(&b[4..36]);
    let mut mr = [0u8; 32];
    mr.copy_from_slice(&b[36..68]);
    let time = u32::from_le_bytes([b[68], b[69], b[70], b[71]]);
    let bits = u32::from_le_bytes([b[72], b[73], b[74], b[75]]);
    Some((hash, prev, mr, time, bits))
}

pub fn parse_block(b: &[u8]) -> Result<PBlock, PErr> {
    let (hash, prev, merkle_root, time, bits) = parse_header(b).ok_or(PErr::Eof)?;
    let mut c = Cur::new(b);
    c.p = 80;
    let n = c.varint()?;
    if n > 1_000_000 {
        return Err(PErr::TooLarge);
    }
    let mut txs = vec![];
    for _ in 0..n {
        txs.push(parse_tx_at(&mut c)?);
    }
    Ok(PBlock {
        hash,
        header: b[..80].to_vec(),
        prev,
        merkle_root,
        time,
        bits,
        txs,
        consumed: c.p,
    })
}

/// Bitcoin's merkle root (duplicate-last rule). Empty list -> None.
pub fn merkle_root(txids: &[H]) -> Option<H> {
    if txids.is_empty() {
        return None;
    }
    let mut level: Vec<H> = txids.to_vec();
    while level.len() > 1 {
        let mut next = vec![];
        let mut i = 0;
        while i < level.len() {
            let a = level[i];
            let b = if i + 1 < level.len() { level[i + 1] } else { level[i] };
            let mut buf = [0u8; 64];
            buf[..32].copy_from_slice(&a);
            buf[32..].copy_from_slice(&b);
            next.push(sha256d(&buf));
            i += 2;
        }
        level = next;
    }
    Some(level[0])
}
