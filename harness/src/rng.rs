//! Deterministic PRNG (splitmix64-seeded xoshiro256**). No external crates.

#[derive(Clone, Debug)]
pub struct Rng {
    s: [u64; 4],
}

fn splitmix(x: &mut u64) -> u64 {
    *x = x.wrapping_add(0x9E3779B97F4A7C15);
    let mut z = *x;
    z = (z ^ (z >> 30)).wrapping_mul(0xBF58476D1CE4E5B9);
    z = (z ^ (z >> 27)).wrapping_mul(0x94D049BB133111EB);
    z ^ (z >> 31)
}

impl Rng {
    pub fn new(seed: u64) -> Self {
        let mut x = seed;
        let s = [
            splitmix(&mut x),
            splitmix(&mut x),
            splitmix(&mut x),
            splitmix(&mut x),
        ];
        Rng { s }
    }

    /// Derives an independent stream from a list of integers.
    pub fn derive(parts: &[u64]) -> Self {
        let mut h: u64 = 0x243F6A8885A308D3;
        for p in parts {
            h ^= *p;
            h = splitmix(&mut h);
        }
        Rng::new(h)
    }

    pub fn next_u64(&mut self) -> u64 {
        let result = self.s[1].wrapping_mul(5).rotate_left(7).wrapping_mul(9);
        let t = self.s[1] << 17;
        self.s[2] ^= self.s[0];
        self.s[3] ^= self.s[1];
        self.s[1] ^= self.s[2];
        self.s[0] ^= self.s[3];
        self.s[2] ^= t;
        self.s[3] = self.s[3].rotate_left(45);
        result
    }

    /// Uniform in 0..n (n > 0).
    pub fn below(&mut self, n: u64) -> u64 {
        assert!(n > 0);
        self.next_u64() % n
    }

    pub fn usize_below(&mut self, n: usize) -> usize {
        self.below(n as u64) as usize
    }

    /// Uniform in lo..=hi.
    pub fn range(&mut self, lo: u64, hi: u64) -> u64 {
        assert!(hi >= lo);
        lo + self.below(hi - lo + 1)
    }

    /// True with probability num/den.
    pub fn chance(&mut self, num: u64, den: u64) -> bool {
        self.below(den) < num
    }

    pub fn pick<'a, T>(&mut self, items: &'a [T]) -> &'a T {
        &items[self.usize_below(items.len())]
    }

    pub fn bytes(&mut self, n: usize) -> Vec<u8> {
        let mut v = Vec::with_capacity(n);
        while v.len() < n {
            let x = self.next_u64().to_le_bytes();
            for b in x {
                if v.len() < n {
                    v.push(b);
                }
            }
        }
        v
    }

    pub fn shuffle<T>(&mut self, items: &mut [T]) {
        for i in (1..items.len()).rev() {
            let j = self.usize_below(i + 1);
            items.swap(i, j);
        }
    }
}

/// Deterministic 64-bit fingerprint of a byte string (FNV-1a then a splitmix finaliser).
pub fn fp(bytes: &[u8]) -> u64 {
    let mut h: u64 = 0xcbf29ce484222325;
    for b in bytes {
        h ^= *b as u64;
        h = h.wrapping_mul(0x100000001b3);
    }
    splitmix(&mut h)
}

pub fn fp_str(s: &str) -> u64 {
    fp(s.as_bytes())
}
