//! C08 — time-sliced ingestion is invisible and schedule independent.
//! Also drives the "at every pause point" clauses of C05 and C07.

use crate::cov::{Ctx, Tier};
use crate::hist::{Hist, HistCfg, Palette, Path};
use crate::mon;
use crate::parse::H;
use crate::rng::{fp_str, Rng};
use crate::snap::{self, SnapOpts};
use crate::world::{self, Ingest, Out};
use ic_btc_canister as can;
use ic_btc_interface::Network;
use serde_json::json;

const THRESHOLD_INS: u64 = 1_000_000_000;

fn set_budget(k: u64) {
    can::runtime::verif::performance_counter_reset();
    // k checks pass, the (k+1)-th pauses
    let step = (THRESHOLD_INS + k) / (k + 1);
    can::runtime::verif::set_performance_counter_step(step);
}

fn clear_budget() {
    can::runtime::verif::performance_counter_reset();
    can::runtime::verif::set_performance_counter_step(0);
}

#[derive(Clone, Debug)]
pub enum Plan {
    /// no slicing at all (the twin)
    Unsliced,
    /// per-round budgets drawn from the generator: 1 with high probability, else small numbers
    Random(u64),
    /// pause everywhere
    AllOnes,
    /// explicit budget list for the first sliced ingestion, then unlimited
    Mask(Vec<u64>),
}

pub struct Slicer {
    pub plan: Plan,
    pub rng: Rng,
    pub mask_pos: usize,
    pub pause_points: u64,
    pub pause_sets: Vec<u64>,
    pub max_rounds: u64,
    pub sliced_ingestions: u64,
}

impl Slicer {
    pub fn new(plan: Plan, rng: Rng) -> Self {
        Slicer { plan, rng, mask_pos: 0, pause_points: 0, pause_sets: vec![], max_rounds: 0, sliced_ingestions: 0 }
    }
    fn next_budget(&mut self) -> Option<u64> {
        match &self.plan {
            Plan::Unsliced => None,
            Plan::AllOnes => Some(1),
            Plan::Random(_) => Some(match self.rng.below(10) {
                0..=4 => 1,
                5..=7 => self.rng.range(2, 4),
                _ => self.rng.range(5, 40),
            }),
            Plan::Mask(ks) => {
                if self.mask_pos < ks.len() {
                    self.mask_pos += 1;
                    Some(ks[self.mask_pos - 1])
                } else {
                    None
                }
            }
        }
    }
}

fn slice_points(h: &Hist, b: &H) -> u64 {
    h.model.blocks[b]
        .txs
        .iter()
        .map(|t| t.outputs.len() as u64 + if t.is_coinbase() { 0 } else { t.inputs.len() as u64 })
        .sum()
}

/// One ingestion opportunity under a slicing plan, with monitors at every pause point.
pub fn sliced_opportunity(h: &mut Hist, ctx: &mut Ctx, sl: &mut Slicer) -> bool {
    sliced_opportunity_with(h, ctx, sl, None)
}

pub fn sliced_opportunity_with(h: &mut Hist, ctx: &mut Ctx, sl: &mut Slicer, page_limits: Option<&[usize]>) -> bool {
    if h.desync.is_some() {
        return false;
    }
    if matches!(sl.plan, Plan::Unsliced) {
        return h.opportunity(ctx);
    }
    let will_ingest = !matches!(h.model.decide(), crate::model::Decision::MustNot);
    let best_before = h.model.best_chains();
    let sh0 = world::stable_height();
    let literal = ctx.prop == "C08" && will_ingest;
    let s0 = if literal { Some(snap::snapshot(h, &SnapOpts::default())) } else { None };
    // bound on rounds: every round with budget >= 1 makes progress
    let bound: u64 = h.model.live_preorder().iter().map(|b| slice_points(h, b) + 2).sum::<u64>() + 4;
    let mut rounds = 0u64;
    let mut this_pause_set: u64 = 0;
    let mut processed_points: u64 = 0;
    loop {
        let budget = sl.next_budget();
        match budget {
            Some(k) => set_budget(k),
            None => clear_budget(),
        }
        let req_before = can::verif_hooks::requests_len();
        let r: Out<Ingest> = match h.cfg.path {
            Path::Heartbeat => {
                world::set_replies(vec![]);
                match world::heartbeat() {
                    Out::Trap(m) => Out::Trap(m),
                    Out::Ok(()) => Out::Ok(if world::is_ingesting() { Ingest::Paused } else { Ingest::Done(true) }),
                }
            }
            _ => world::ingest_stable(),
        };
        clear_budget();
        rounds += 1;
        match r {
            Out::Trap(m) => {
                h.desync = Some(format!("ingestion trapped: {}", m));
                ctx.violation(format!("sliced ingestion trapped: {}", m), None, json!({"log": h.log}));
                return false;
            }
            Out::Ok(Ingest::Done(_)) => break,
            Out::Ok(Ingest::Paused) => {
                sl.pause_points += 1;
                ctx.cov.count("c08_pause_points");
                if let Some(k) = budget {
                    processed_points += k;
                    if processed_points < 64 {
                        this_pause_set |= 1 << processed_points;
                    }
                }
                // no new blocks are fetched or processed while ingestion is in progress
                if h.cfg.path == Path::Heartbeat && can::verif_hooks::requests_len() != req_before {
                    ctx.violation(
                        "a get_successors request was issued while a block was being ingested".into(),
                        None,
                        json!({"log": h.log}),
                    );
                }
                // literal clause: answers equal those given before the ingestion began
                if let Some(s0) = &s0 {
                    if world::stable_height() == sh0 {
                        let s = snap::snapshot(h, &SnapOpts::default());
                        ctx.cov.count("c08_pause_points_with_full_snapshot_compared");
                        ctx.cov.eval(Some(fp_str(&format!("c08|{:?}|{}|{}", h.shape_sig(), rounds, this_pause_set))));
                        if let Some(d) = snap::diff(s0, &s) {
                            let sig = if d.starts_with("info.utxos_length") {
                                Some("C08:utxos_length-changes-while-ingestion-is-paused".to_string())
                            } else if d.starts_with("headers[") && d.contains("n=") {
                                Some("C07:header-of-block-being-ingested-returned-twice".to_string())
                            } else {
                                None
                            };
                            ctx.violation(
                                format!("answer changed between rounds of a sliced ingestion (round {}): {}", rounds, d),
                                sig,
                                json!({"log": h.log}),
                            );
                        }
                    }
                }
                // model-based monitors at the pause point (model anchor = last completed block)
                if !h.compare_anchor(ctx, &best_before) {
                    return false;
                }
                if let Some(limits) = page_limits {
                    for l in limits {
                        mon::check_c01(h, ctx, Some(*l));
                    }
                    if ctx.prop == "C05" {
                        mon::check_c05(h, ctx, Some(2), &[], 4);
                    }
                }
                match ctx.prop.as_str() {
                    "C07" => mon::check_c07(h, ctx, true, 25),
                    "C05" => mon::check_c05(h, ctx, Some(3), &[], 3),
                    "C08" => {
                        mon::check_c01(h, ctx, Some(2));
                        mon::check_c07(h, ctx, true, 12);
                    }
                    _ => {}
                }
                if rounds > bound {
                    ctx.violation(
                        format!("ingestion not finished after {} rounds each granting at least one step (bound {})", rounds, bound),
                        None,
                        json!({"log": h.log}),
                    );
                    h.desync = Some("no progress".into());
                    return false;
                }
            }
        }
    }
    if rounds > 1 {
        sl.sliced_ingestions += 1;
        sl.pause_sets.push(this_pause_set);
        sl.max_rounds = sl.max_rounds.max(rounds);
    }
    h.compare_anchor(ctx, &best_before)
}

fn cfg_for(rng: &mut Rng) -> HistCfg {
    let path = if rng.chance(1, 3) { Path::Heartbeat } else { Path::Insert };
    HistCfg {
        net: Network::Regtest,
        path,
        threshold: rng.range(1, 3) as u32,
        n_each: 1,
        max_txs: rng.range(1, 4) as usize,
        fork_pct: *rng.pick(&[0, 10, 25]),
        palette: if path == Path::Heartbeat { Palette::One } else { *rng.pick(&[Palette::One, Palette::Random(3)]) },
        fanout_pct: 20,
        share_pct: 5,
        lazy_fees: true,
        sync_gate: false,
        ingest_pct: 100,
        fee_txs: true,
    }
}

/// Runs the scripted history under a plan; returns the final snapshot.
fn run_script(
    ctx: &mut Ctx,
    cfg: &HistCfg,
    hist_seed: &[u64],
    steps: u64,
    plan: Plan,
    budget_rng: Rng,
) -> Option<(Vec<(String, String)>, Slicer, Vec<String>)> {
    let mut h = Hist::new(cfg.clone(), Rng::derive(hist_seed));
    let mut sl = Slicer::new(plan, budget_rng);
    for _ in 0..steps {
        let parent = h.pick_parent();
        if h.add_block_on(&parent, ctx).is_none() {
            break;
        }
        if !sliced_opportunity(&mut h, ctx, &mut sl) {
            break;
        }
    }
    clear_budget();
    if let Some(d) = &h.desync {
        if ctx.cov.violations.iter().all(|v| v.case != ctx.case) {
            ctx.inconclusive(format!("history abandoned: {}", d));
        }
        return None;
    }
    // fee percentiles are pinned per tip at the first observation (C15), and the sliced run observes
    // them at pause points the twin does not have: they are not part of the twin comparison
    let s = snap::snapshot(&h, &SnapOpts { with_fees: false, ..Default::default() });
    Some((s, sl, h.log.clone()))
}

pub fn lane_slice(ctx: &mut Ctx) {
    let max_cases = if ctx.tier == Tier::Quick { 100_000 } else { 10_000_000 };
    for k in ctx.cases("slice", max_cases) {
        if !ctx.time_left() {
            break;
        }
        ctx.begin("slice", k);
        let mut rng = Rng::derive(&[ctx.seed, fp_str("slice"), k]);
        let cfg = cfg_for(&mut rng);
        let steps = rng.range(4, 10);
        let hist_seed = [ctx.seed, fp_str("slice-hist"), k];
        ctx.cov.count(&format!("path_{:?}", cfg.path));
        // the unsliced twin
        let twin = run_script(ctx, &cfg, &hist_seed, steps, Plan::Unsliced, Rng::new(0));
        let Some((twin_snap, _, _)) = twin else { continue };
        let plans: Vec<Plan> = if k % 4 == 0 { vec![Plan::AllOnes] } else { vec![Plan::Random(0)] };
        for plan in plans {
            let r = run_script(ctx, &cfg, &hist_seed, steps, plan.clone(), Rng::derive(&[ctx.seed, fp_str("slice-budget"), k]));
            let Some((s, sl, log)) = r else { continue };
            ctx.cov.add("c08_schedules_run", 1);
            ctx.cov.add("c08_sliced_ingestions", sl.sliced_ingestions);
            ctx.cov.max("max_rounds_for_one_ingestion", sl.max_rounds);
            for ps in sl.pause_sets.iter() {
                ctx.cov.eval(Some(fp_str(&format!("c08set|{}|{}", k, ps))));
            }
            if ctx.prop == "C08" {
                if let Some(d) = snap::diff(&twin_snap, &s) {
                    ctx.violation(
                        format!("final observable state differs from the unsliced twin (plan {:?}): {}", plan, d),
                        None,
                        json!({"log": log}),
                    );
                }
                ctx.cov.count("c08_final_states_compared_with_unsliced_twin");
            }
            if ctx.cov.samples.len() < 3 && sl.sliced_ingestions > 0 {
                ctx.cov.sample(json!({"path": format!("{:?}", cfg.path), "steps": steps, "plan": format!("{:?}", plan),
                    "sliced_ingestions": sl.sliced_ingestions, "pause_points": sl.pause_points, "max_rounds": sl.max_rounds}));
            }
        }
    }
}

/// Exhaustive family: one designed block with m slice points, every subset of pause positions.
pub fn lane_slice_exhaustive(ctx: &mut Ctx) {
    let max_cases = if ctx.tier == Tier::Quick { 6 } else { 64 };
    let mut all_done = true;
    for k in ctx.cases("slicex", max_cases) {
        if !ctx.time_left() {
            all_done = false;
            break;
        }
        ctx.begin("slicex", k);
        let mut rng = Rng::derive(&[ctx.seed, fp_str("slicex"), k]);
        let mut cfg = cfg_for(&mut rng);
        cfg.path = Path::Insert;
        cfg.threshold = 1;
        cfg.fork_pct = 0;
        cfg.palette = Palette::One;
        cfg.max_txs = 2;
        cfg.fanout_pct = 0;
        let steps = 5u64;
        let hist_seed = [ctx.seed, fp_str("slicex-hist"), k];
        let twin = run_script(ctx, &cfg, &hist_seed, steps, Plan::Unsliced, Rng::new(0));
        let Some((twin_snap, _, _)) = twin else { continue };
        // slice points of the blocks in ingestion order are unknown up front: probe with all-ones
        let probe = run_script(ctx, &cfg, &hist_seed, steps, Plan::AllOnes, Rng::new(0));
        let Some((_, psl, _)) = probe else { continue };
        // total slice points processed under sliced rounds of the FIRST sliced ingestion
        let m = (psl.max_rounds.saturating_sub(1)).min(if ctx.tier == Tier::Quick { 7 } else { 11 });
        if m == 0 {
            continue;
        }
        let mut complete = true;
        for mask in 0u64..(1u64 << m) {
            if !ctx.time_left() {
                complete = false;
                all_done = false;
                break;
            }
            // mask bit i set = pause after slice point i+1; budgets = run lengths
            let mut ks = vec![];
            let mut run = 0u64;
            for i in 0..m {
                run += 1;
                if mask & (1 << i) != 0 {
                    ks.push(run);
                    run = 0;
                }
            }
            let r = run_script(ctx, &cfg, &hist_seed, steps, Plan::Mask(ks.clone()), Rng::new(0));
            let Some((s, _sl, log)) = r else { continue };
            ctx.cov.count("c08_exhaustive_pause_sets_run");
            ctx.cov.eval(Some(fp_str(&format!("c08x|{}|{}", k, mask))));
            if ctx.prop == "C08" {
                if let Some(d) = snap::diff(&twin_snap, &s) {
                    ctx.violation(
                        format!("final observable state differs from the unsliced twin (budgets {:?}): {}", ks, d),
                        None,
                        json!({"log": log}),
                    );
                }
            }
        }
        if complete {
            ctx.cov.count("c08_blocks_with_all_pause_sets_enumerated");
            ctx.cov.max("max_slice_points_enumerated_exhaustively", m);
        }
    }
    if ctx.only_case.is_none() {
        ctx.cov.exhaustive = Some(all_done);
    }
}

/// Designed shape (order stress for the merged iterators): an address with stable UTXOs at several
/// heights, of which the block being ingested spends some; at every pause point the address is
/// paged with small limits.
pub fn lane_slice_order(ctx: &mut Ctx) {
    use crate::gen;
    let max_cases = if ctx.tier == Tier::Quick { 48 } else { 100_000 };
    for k in ctx.cases("sliceorder", max_cases) {
        if !ctx.time_left() {
            break;
        }
        ctx.begin("sliceorder", k);
        let mut rng = Rng::derive(&[ctx.seed, fp_str("sliceorder"), k]);
        let mut cfg = cfg_for(&mut rng);
        cfg.path = Path::Insert;
        cfg.threshold = 1;
        cfg.fork_pct = 0;
        cfg.palette = Palette::One;
        let mut h = Hist::new(cfg, rng);
        let target = h.uni.addrs[h.rng.usize_below(h.uni.addrs.len())].clone();
        let other = h.uni.addrs[h.rng.usize_below(h.uni.addrs.len())].clone();
        let mut sl = Slicer::new(Plan::Unsliced, Rng::new(1));
        let mut funded: Vec<(crate::parse::H, u32)> = vec![];
        let mut ok = true;
        // funding blocks
        let n_fund = h.rng.range(2, 4);
        for _ in 0..n_fund {
            let tip = *h.model.best_chains()[0].last().unwrap();
            let height = h.model.blocks[&tip].height + 1;
            h.uniq += 1;
            let n_out = h.rng.range(2, 6) as usize;
            let outs: Vec<(u64, Vec<u8>)> = (0..n_out).map(|i| (if h.rng.chance(1, 6) { 0 } else { 1000 + i as u64 }, target.script.clone())).collect();
            let cb = gen::coinbase_tx(height, h.uniq, outs);
            use bitcoin::hashes::Hash;
            let id = cb.compute_txid().to_byte_array();
            for i in 0..n_out {
                funded.push((id, i as u32));
            }
            let b = gen::make_block(h.net(), tip, h.model.blocks[&tip].time + 60, vec![cb], true);
            if h.deliver(b, 1, ctx).is_none() || !sliced_opportunity(&mut h, ctx, &mut sl) {
                ok = false;
                break;
            }
        }
        if !ok {
            continue;
        }
        // the spending block: takes a random subset of the funded outputs, pays some back to the target
        let tip = *h.model.best_chains()[0].last().unwrap();
        let height = h.model.blocks[&tip].height + 1;
        h.uniq += 1;
        let mut picks = funded.clone();
        h.rng.shuffle(&mut picks);
        picks.truncate(h.rng.range(1, funded.len() as u64 - 1) as usize);
        let mut txs = vec![gen::coinbase_tx(height, h.uniq, vec![(5, other.script.clone())])];
        for chunk in picks.chunks(2) {
            let outs = vec![(1, target.script.clone()), (1, other.script.clone())];
            txs.push(gen::spend_tx(chunk, outs, 0, 10, &mut h.rng));
        }
        let b = gen::make_block(h.net(), tip, h.model.blocks[&tip].time + 60, txs, true);
        if h.deliver(b, 1, ctx).is_none() || !sliced_opportunity(&mut h, ctx, &mut sl) {
            continue;
        }
        // the next block makes the spending block stabilise: ingest it in single steps
        let tip = *h.model.best_chains()[0].last().unwrap();
        let b = h.gen_block(&tip);
        if h.deliver(b, 1, ctx).is_none() {
            continue;
        }
        sl.plan = Plan::AllOnes;
        // sliced_opportunity runs check_c01(limit 2) + ranges for C08; page with other limits as well
        let before_pauses = sl.pause_points;
        if !sliced_opportunity_with(&mut h, ctx, &mut sl, Some(&[1usize, 2, 3])) {
            continue;
        }
        ctx.cov.add("c08_order_stress_pause_points", sl.pause_points - before_pauses);
        ctx.cov.count("c08_order_stress_cases");
    }
}
