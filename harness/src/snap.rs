//! User-visible snapshot: canonical rendering of every query answer for the case's universe.

use crate::hist::Hist;
use crate::world::{self, Filter, Out};

pub struct SnapOpts {
    pub with_fees: bool,
    pub with_utxos_length: bool,
    pub max_c: u32,
}

impl Default for SnapOpts {
    fn default() -> Self {
        SnapOpts { with_fees: true, with_utxos_length: true, max_c: 64 }
    }
}

/// Returns a list of (label, rendered answer).
pub fn snapshot(h: &Hist, o: &SnapOpts) -> Vec<(String, String)> {
    let len = h.model.best_chains()[0].len() as u32;
    snapshot_for(h.net(), &h.uni.addrs, len, h.model.stable_height(), o)
}

pub fn snapshot_for(net: ic_btc_interface::Network, addrs: &[crate::gen::Addr], len: u32, sh: u32, o: &SnapOpts) -> Vec<(String, String)> {
    let mut v: Vec<(String, String)> = vec![];
    v.push(("get_config".into(), format!("{:?}", world::get_config())));
    match world::info() {
        Out::Ok(i) => {
            v.push(("info.tip".into(), format!("{} {} {} {}", i.height, hex::encode(&i.block_hash), i.timestamp, i.difficulty)));
            if o.with_utxos_length {
                v.push(("info.utxos_length".into(), format!("{}", i.utxos_length)));
            }
        }
        Out::Trap(m) => v.push(("info".into(), format!("TRAP {}", m))),
    }
    let top = (len + 1).min(o.max_c);
    for a in addrs.iter() {
        let mut fs: Vec<(String, Filter, Option<u32>)> = vec![("none".into(), Filter::None, None)];
        for c in 0..=top {
            fs.push((format!("c{}", c), Filter::MinConf(c), Some(c)));
        }
        for (name, f, c) in fs {
            let r = world::all_pages(&a.text, net, &f, Some(1000));
            let s = match r {
                Out::Trap(m) => format!("TRAP {}", m),
                Out::Ok(Err(e)) => format!("ERR {:?}", e),
                Out::Ok(Ok((first, all, _, _))) => format!(
                    "tip {} h{} [{}]",
                    hex::encode(&first.tip_block_hash[..8.min(first.tip_block_hash.len())]),
                    first.tip_height,
                    all.iter()
                        .map(|u| format!("{}:{}:{}:{}", u.height, hex::encode(&u.outpoint.txid.as_ref()[..4]), u.outpoint.vout, u.value))
                        .collect::<Vec<_>>()
                        .join(",")
                ),
            };
            v.push((format!("utxos[{}][{}]", a.text, name), s));
            let b = world::get_balance_query(&a.text, net, c);
            v.push((format!("balance[{}][{}]", a.text, name), format!("{:?}", b)));
        }
    }
    let tip = sh + len - 1;
    let mut ranges: Vec<(u32, Option<u32>)> = vec![(0, None), (tip, None), (tip + 1, None)];
    for s in sh.saturating_sub(2)..=sh + 2 {
        ranges.push((s, None));
        for e in s..=(s + 3) {
            ranges.push((s, Some(e)));
        }
    }
    for (s, e) in ranges {
        let r = world::get_block_headers(s, e, net);
        let txt = match r {
            Out::Trap(m) => format!("TRAP {}", m),
            Out::Ok(Err(e)) => format!("ERR {:?}", e),
            Out::Ok(Ok(r)) => format!(
                "tip_height {} n={} [{}]",
                r.tip_height,
                r.block_headers.len(),
                r.block_headers
                    .iter()
                    .map(|hd| hex::encode(&crate::parse::sha256d(hd)[..4]))
                    .collect::<Vec<_>>()
                    .join(",")
            ),
        };
        v.push((format!("headers[{},{:?}]", s, e), txt));
    }
    if o.with_fees {
        v.push(("fee_percentiles".into(), format!("{:?}", world::fee_percentiles(net))));
    }
    v
}

/// First difference between two snapshots, rendered.
pub fn diff(a: &[(String, String)], b: &[(String, String)]) -> Option<String> {
    for (x, y) in a.iter().zip(b.iter()) {
        if x.0 != y.0 {
            return Some(format!("snapshots have different shapes at {} vs {}", x.0, y.0));
        }
        if x.1 != y.1 {
            let cut = |s: &str| if s.len() > 300 { format!("{}...", &s[..300]) } else { s.to_string() };
            return Some(format!("{}: `{}` vs `{}`", x.0, cut(&x.1), cut(&y.1)));
        }
    }
    if a.len() != b.len() {
        return Some(format!("snapshots have {} vs {} entries", a.len(), b.len()));
    }
    None
}

/// What the sync gate would answer: the stored announced headers (hook) and, with the gate
/// switched on for the duration of the probe, one call of each gated query endpoint.
pub fn gate_probe(h: &Hist) -> Vec<(String, String)> {
    use ic_btc_interface::{Flag, SetConfigRequest};
    let mut v: Vec<(String, String)> = vec![];
    let mut ann: Vec<String> = world::bookkeeping().next_by_hash.iter().map(|(b, height, _)| format!("{}@{}", hex::encode(&b.to_vec()[..6]), height)).collect();
    ann.sort();
    v.push(("announced_headers".into(), ann.join(",")));
    let was = match world::get_config() {
        Out::Ok(c) => c.disable_api_if_not_fully_synced,
        _ => return v,
    };
    let _ = world::set_config(SetConfigRequest { disable_api_if_not_fully_synced: Some(Flag::Enabled), ..Default::default() });
    let net = h.net();
    if let Some(a) = h.uni.addrs.first() {
        v.push(("gated.get_balance_query".into(), format!("{:?}", world::get_balance_query(&a.text, net, None))));
        let r = world::get_utxos_query(&a.text, net, &Filter::None);
        v.push(("gated.get_utxos_query".into(), match r {
            Out::Trap(m) => format!("TRAP {}", m),
            Out::Ok(x) => format!("{:?}", x.map(|y| (y.tip_height, y.utxos.len()))),
        }));
    }
    v.push(("gated.get_block_headers".into(), match world::get_block_headers(0, None, net) {
        Out::Trap(m) => format!("TRAP {}", m),
        Out::Ok(x) => format!("{:?}", x.map(|y| (y.tip_height, y.block_headers.len()))),
    }));
    let _ = world::set_config(SetConfigRequest { disable_api_if_not_fully_synced: Some(was), ..Default::default() });
    v
}
