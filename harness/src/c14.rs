//! C14 — data endpoints are gated by access flag, network and sync status.

use crate::cov::{Ctx, Tier};
use crate::gen;
use crate::hist::{Hist, HistCfg, Palette, Path};
use crate::parse;
use crate::rng::{fp_str, Rng};
use crate::world::{self, Filter, Out};
use ic_btc_interface::{Flag, Network, SetConfigRequest};
use serde_json::json;

fn cfg_for(rng: &mut Rng) -> HistCfg {
    // half of the cases below validation-by-heartbeat, with mock difficulties: the best chain is
    // then not always the longest branch
    let insert = rng.chance(1, 2);
    HistCfg {
        net: Network::Regtest,
        path: if insert { Path::Insert } else { Path::Heartbeat },
        threshold: rng.range(2, 5) as u32,
        n_each: 1,
        max_txs: 2,
        fork_pct: if insert { 50 } else { 30 },
        palette: if insert { *rng.pick(&[Palette::Heavy(12), Palette::Random(4), Palette::Heavy(40)]) } else { Palette::One },
        fanout_pct: 5,
        share_pct: 5,
        lazy_fees: true,
        sync_gate: true,
        ingest_pct: 100,
        fee_txs: true,
    }
}

const ENDPOINTS: [&str; 7] = [
    "get_utxos",
    "get_utxos_query",
    "get_balance",
    "get_balance_query",
    "get_block_headers",
    "get_current_fee_percentiles",
    "send_transaction",
];

fn other_net(n: Network, i: usize) -> Network {
    let all = [Network::Mainnet, Network::Testnet, Network::Regtest];
    let idx = all.iter().position(|x| *x == n).unwrap();
    all[(idx + i) % 3]
}

/// true = refused (trap), false = answered
fn call(endpoint: &str, addr: &str, net: Network, tx: &[u8]) -> (bool, String) {
    let r = match endpoint {
        "get_utxos" => world::get_utxos_update(addr, net, &Filter::None).trap_msg().map(|s| s.to_string()),
        "get_utxos_query" => world::get_utxos_query(addr, net, &Filter::None).trap_msg().map(|s| s.to_string()),
        "get_balance" => world::get_balance_update(addr, net, None).trap_msg().map(|s| s.to_string()),
        "get_balance_query" => world::get_balance_query(addr, net, None).trap_msg().map(|s| s.to_string()),
        "get_block_headers" => world::get_block_headers(0, None, net).trap_msg().map(|s| s.to_string()),
        "get_current_fee_percentiles" => world::fee_percentiles(net).trap_msg().map(|s| s.to_string()),
        "send_transaction" => world::send_transaction(tx.to_vec(), net).trap_msg().map(|s| s.to_string()),
        _ => unreachable!(),
    };
    match r {
        Some(m) => (true, m),
        None => (false, String::new()),
    }
}

fn matrix(h: &mut Hist, ctx: &mut Ctx) {
    let net = h.net();
    let best_h = {
        let b = h.model.best_chains();
        h.model.blocks[b[0].last().unwrap()].height
    };
    let must_max = h.ann_must.iter().map(|x| x.height).max().unwrap_or(0);
    let may_max = h.ann_may.iter().map(|x| x.height).max().unwrap_or(0).max(must_max);
    ctx.cov.count("c14_states");
    if !h.model.best_is_longest() {
        ctx.cov.count("c14_states_where_the_best_chain_is_not_the_longest");
    }
    if must_max != may_max {
        ctx.cov.count("c14_states_with_must_differing_from_may");
    }
    if must_max > best_h + 2 {
        ctx.cov.count("c14_states_certainly_not_synced");
    }
    let addr = h.uni.addrs[0].text.clone();
    let tx = {
        let t = gen::spend_tx(&[([9u8; 32], 0)], vec![(5, h.uni.addrs[0].script.clone())], 0, 20, &mut h.rng);
        bitcoin::consensus::serialize(&t)
    };
    for api in [Flag::Enabled, Flag::Disabled] {
        for sync in [Flag::Enabled, Flag::Disabled] {
            let _ = world::set_config(SetConfigRequest {
                api_access: Some(api),
                disable_api_if_not_fully_synced: Some(sync),
                ..Default::default()
            });
            for req_net in [net, other_net(net, 1), other_net(net, 2)] {
                for e in ENDPOINTS.iter() {
                    let (refused, msg) = call(e, &addr, req_net, &tx);
                    ctx.cov.count("c14_matrix_cells");
                    let gate_applies = sync == Flag::Enabled && *e != "send_transaction";
                    let refuse_certain = api == Flag::Disabled || req_net != net || (gate_applies && must_max > best_h + 2);
                    let answer_certain = api == Flag::Enabled && req_net == net && (!gate_applies || may_max <= best_h + 2);
                    if refused && gate_applies && api == Flag::Enabled && req_net == net {
                        ctx.cov.count("c14_cells_refused_by_sync");
                    }
                    ctx.cov.eval(Some(fp_str(&format!(
                        "c14|{}|{:?}|{:?}|{}|{}|{}|{}",
                        e, api, sync, req_net == net, refused, must_max as i64 - best_h as i64, may_max as i64 - best_h as i64
                    ))));
                    let detail = json!({"endpoint": e, "api_access": format!("{:?}", api), "disable_api_if_not_fully_synced": format!("{:?}", sync),
                        "requested_network": gen::net_name(req_net), "canister_network": gen::net_name(net), "best_height": best_h,
                        "highest_certain_announced_header": must_max, "highest_possible_announced_header": may_max, "trap": msg, "log": h.log});
                    if refused && answer_certain {
                        ctx.violation(
                            format!("{} refused although access is enabled, the network is right and the highest announced header ({}) is within 2 of the best height {}", e, may_max, best_h),
                            None,
                            detail,
                        );
                    } else if !refused && refuse_certain {
                        ctx.violation(
                            format!(
                                "{} answered although it must refuse (api_access {:?}, requested {}, sync gate {:?}, highest announced header {} vs best height {})",
                                e, api, gen::net_name(req_net), sync, must_max, best_h
                            ),
                            None,
                            detail,
                        );
                    }
                }
            }
            // never gated
            if world::get_config().is_trap() || world::info().is_trap() {
                ctx.violation("get_config / get_blockchain_info refused".into(), None, json!({"api_access": format!("{:?}", api)}));
            }
        }
    }
    let _ = world::set_config(SetConfigRequest {
        api_access: Some(Flag::Enabled),
        disable_api_if_not_fully_synced: Some(Flag::Enabled),
        ..Default::default()
    });
    if ctx.cov.samples.len() < 3 && must_max > 0 {
        ctx.cov.sample(json!({"best_height": best_h, "stable_height": h.model.stable_height(), "certain_announced": h.ann_must.iter().map(|x| x.height).collect::<Vec<_>>(),
            "possible_announced": h.ann_may.iter().map(|x| x.height).collect::<Vec<_>>()}));
    }
}

/// one response: some valid blocks (possibly previously announced ones) + announced headers
/// the same step on the insert path (mock difficulties): blocks through state::insert_block,
/// announced headers through state::insert_next_block_headers
fn response_insert(h: &mut Hist, ctx: &mut Ctx) -> bool {
    let n = h.rng.range(0, 2) as usize;
    for _ in 0..n {
        let cand: Vec<crate::hist::Hidden> = h.ann_must.iter().filter(|x| x.block.is_some() && h.model.is_live(&x.parent) && !h.model.is_live(&x.hash)).cloned().collect();
        if !cand.is_empty() && h.rng.chance(1, 3) {
            let x = h.rng.pick(&cand).clone();
            if h.deliver(x.block.clone().unwrap(), 1, ctx).is_none() {
                return false;
            }
            ctx.cov.count("c14_announced_blocks_delivered");
        } else {
            let parent = h.pick_parent();
            if h.add_block_on(&parent, ctx).is_none() {
                return false;
            }
        }
        h.prune_announced();
    }
    let mut next: Vec<Vec<u8>> = vec![];
    if h.rng.chance(3, 4) {
        let k = h.rng.range(1, 8) as usize;
        next.extend(h.hidden_header_chain(k));
    }
    if h.rng.chance(1, 5) {
        let g = h.rng.range(0, 100) as usize;
        next.push(h.rng.bytes(g));
    }
    let blobs: Vec<ic_btc_canister::types::BlockHeaderBlob> = next.iter().map(|x| world::header_blob(x.clone())).collect();
    let r = world::guarded(|| ic_btc_canister::with_state_mut(|s| ic_btc_canister::state::insert_next_block_headers(s, &blobs)));
    if let Out::Trap(m) = r {
        ctx.violation(format!("insert_next_block_headers trapped: {}", m), None, json!({"log": h.log}));
        h.desync = Some("trap".into());
        return false;
    }
    h.note_announced(&next);
    if !h.opportunity(ctx) {
        return false;
    }
    h.prune_announced();
    ctx.cov.count("c14_insert_path_steps");
    true
}

fn response(h: &mut Hist, ctx: &mut Ctx) -> bool {
    if h.cfg.path == Path::Insert {
        return response_insert(h, ctx);
    }
    let mut elements: Vec<Vec<u8>> = vec![];
    let n = h.rng.range(0, 2) as usize;
    for _ in 0..n {
        // sometimes deliver a block that was announced before
        let cand: Vec<crate::hist::Hidden> = h.ann_must.iter().filter(|x| x.block.is_some() && h.model.is_live(&x.parent) && !h.model.is_live(&x.hash)).cloned().collect();
        if !cand.is_empty() && h.rng.chance(1, 2) {
            let x = h.rng.pick(&cand).clone();
            let b = x.block.clone().unwrap();
            let bytes = gen::block_bytes(&b);
            let pb = parse::parse_block(&bytes).unwrap();
            h.model.accept(&pb, 1);
            h.raw.insert(pb.hash, b);
            h.log.push(format!("announced block {} delivered", gen::hex32(&pb.hash)[..8].to_string()));
            elements.push(bytes);
            ctx.cov.count("c14_announced_blocks_delivered");
            continue;
        }
        let parent = h.pick_parent();
        let b = h.gen_block(&parent);
        let bytes = gen::block_bytes(&b);
        let pb = parse::parse_block(&bytes).unwrap();
        h.model.accept(&pb, 1);
        h.raw.insert(pb.hash, b);
        h.log.push(format!("block {} on {}", gen::hex32(&pb.hash)[..8].to_string(), gen::hex32(&pb.prev)[..8].to_string()));
        elements.push(bytes);
    }
    let mut next: Vec<Vec<u8>> = vec![];
    if h.rng.chance(3, 4) {
        let k = h.rng.range(1, 10) as usize;
        next.extend(h.hidden_header_chain(k));
    }
    if h.rng.chance(1, 4) {
        // re-announce something already announced, then garbage
        if let Some(x) = h.ann_may.first() {
            next.push(x.header.clone());
        }
        let g = h.rng.range(0, 100) as usize;
        next.push(h.rng.bytes(g));
    }
    world::set_replies(vec![world::reply_complete(elements, next.clone())]);
    // after the blocks are processed the announced list is handled in the same round; keep the
    // model in step with arrivals and pruning round by round
    for _ in 0..7 {
        if let Out::Trap(m) = world::heartbeat() {
            ctx.violation(format!("heartbeat trapped: {}", m), None, json!({"log": h.log}));
            h.desync = Some("trap".into());
            return false;
        }
    }
    // order of effects inside the canister: blocks inserted (their announced headers dropped), then the
    // announced list stored, then (later rounds) stabilisation prunes by height
    h.prune_announced();
    h.note_announced(&next);
    let bb = h.model.best_chains();
    if !h.compare_anchor(ctx, &bb) {
        return false;
    }
    h.prune_announced();
    true
}

pub fn lane_gate(ctx: &mut Ctx) {
    let max_cases = if ctx.tier == Tier::Quick { 100_000 } else { 10_000_000 };
    for k in ctx.cases("gate", max_cases) {
        if !ctx.time_left() {
            break;
        }
        ctx.begin("gate", k);
        let mut rng = Rng::derive(&[ctx.seed, fp_str("gate"), k]);
        let cfg = cfg_for(&mut rng);
        let mut h = Hist::new(cfg, rng);
        let c20 = ctx.prop == "C20";
        if !c20 {
            matrix(&mut h, ctx);
        }
        // scripted opening on the insert path: a heavy short best chain against a light long branch,
        // then headers announced on the best tip (the sync rule speaks of the best-chain height)
        if h.cfg.path == Path::Insert && k % 2 == 0 {
            h.set_threshold(1000);
            let g = h.model.anchor;
            let heavy = h.gen_block(&g);
            let mut ok = h.deliver(heavy, 100, ctx).is_some();
            let best = *h.model.best_chains()[0].last().unwrap();
            let mut tip = g;
            let light = h.rng.range(2, 6);
            for _ in 0..light {
                if !ok {
                    break;
                }
                let b = h.gen_block(&tip);
                match h.deliver(b, 1, ctx) {
                    Some(x) => tip = x,
                    None => ok = false,
                }
            }
            if ok {
                for _ in 0..h.rng.range(1, 7) {
                    // one header at a time on top of the previous one, starting at the best tip
                    let (parent, time, height) = match h.ann_must.last() {
                        Some(x) => (x.hash, x.time, x.height),
                        None => (best, h.model.blocks[&best].time, h.model.blocks[&best].height),
                    };
                    h.uniq += 1;
                    let cb = gen::coinbase_tx(height + 1, h.uniq, vec![(1, h.uni.addrs[0].script.clone())]);
                    let b = gen::make_block(h.net(), parent, time + 30, vec![cb], true);
                    let header = gen::header_bytes(&b.header);
                    h.hidden.push(crate::hist::Hidden { hash: gen::hash_of(&b), parent, time: time + 30, height: height + 1, header: header.clone(), block: Some(b) });
                    let blobs = vec![world::header_blob(header.clone())];
                    let _ = world::guarded(|| ic_btc_canister::with_state_mut(|s| ic_btc_canister::state::insert_next_block_headers(s, &blobs)));
                    h.note_announced(&[header]);
                    if !c20 {
                        matrix(&mut h, ctx);
                    } else {
                        crate::mon::check_c20(&mut h, ctx);
                    }
                }
                ctx.cov.count("c14_scripted_heavy_short_vs_light_long_openings");
            }
        }
        let rounds = if ctx.tier == Tier::Quick { 14 } else { 60 };
        for _ in 0..rounds {
            if !ctx.time_left() || !response(&mut h, ctx) {
                break;
            }
            if c20 {
                // announced headers are dropped when their block arrives and when the stable height reaches them
                crate::mon::check_c20(&mut h, ctx);
                if h.rng.chance(1, 6) && h.upgrade(ctx) {
                    crate::mon::check_c20(&mut h, ctx);
                }
            } else {
                if h.rng.chance(1, 8) {
                    // announced headers and the flags survive an upgrade
                    if !h.upgrade(ctx) {
                        break;
                    }
                    ctx.cov.count("c14_upgrades");
                }
                matrix(&mut h, ctx);
            }
        }
        if let Some(d) = &h.desync {
            if ctx.cov.violations.iter().all(|v| v.case != k) {
                ctx.inconclusive(format!("history abandoned: {}", d));
            }
        }
    }
}
